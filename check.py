#!/venv/bin/python
"""check.py --property Cxx --tier quick|thorough     exit 0 | 1 (VIOLATION) | 2 (HARNESS-ERROR)
check.py --replay replays/Cxx-....json               exit 1 iff the violation reproduces
check.py --selftest determinism [--n K]
env: VERIF_SEED (batch base, default 0) VERIF_TIER VERIF_BUDGET_S VERIF_JOBS VERIF_RUNS VERIF_REPO
"""
import os
import sys

if os.environ.get("PYTHONHASHSEED") != os.environ.get("VERIF_HASHSEED", "0"):
    env = dict(os.environ)
    env["PYTHONHASHSEED"] = os.environ.get("VERIF_HASHSEED", "0")
    os.execve(sys.executable, [sys.executable] + sys.argv, env)

import argparse
import json
import shutil
import traceback

sys.path.insert(0, os.path.dirname(os.path.abspath(__file__)))


def main():
    ap = argparse.ArgumentParser()
    ap.add_argument("--property")
    ap.add_argument("--tier", default=os.environ.get("VERIF_TIER", "quick"))
    ap.add_argument("--replay")
    ap.add_argument("--selftest")
    ap.add_argument("--n", type=int, default=8)
    ap.add_argument("--runs", type=int, default=int(os.environ.get("VERIF_RUNS", "0")))
    ap.add_argument("--jobs", type=int, default=int(os.environ.get("VERIF_JOBS", "16")))
    ap.add_argument("--seed", type=int, default=int(os.environ.get("VERIF_SEED", "0") or 0))
    ap.add_argument("--no-evidence", action="store_true")
    args = ap.parse_args()

    from mwsim import harness, engines
    from mwsim.world import scratch_root
    rc = 2
    try:
        if args.replay:
            spec = json.load(open(args.replay, encoding="utf-8"))
            eng = engines.get_engine(spec["property"])
            vs = [v for v in eng.replay(spec) if v["clause"] == spec.get("clause")]
            if vs:
                print("VIOLATION property=%s replay=%s" % (spec["property"], os.path.abspath(args.replay)))
                print("  clause=%s: %s" % (vs[0]["clause"], vs[0]["text"][:600]))
                rc = 1
            else:
                print("replay %s: the violation does not reproduce" % args.replay)
                rc = 0
        elif args.selftest:
            from mwsim import selftest
            rc = selftest.main(args.selftest, args.n, args.jobs)
        else:
            eng = engines.get_engine(args.property)
            budget = os.environ.get("VERIF_BUDGET_S")
            budget = float(budget) if budget else (600.0 if args.tier == "thorough" else 160.0)
            n = args.runs or eng.runs(args.tier)
            rc = harness.check_property(eng, args.tier, args.seed, n, args.jobs, budget_s=budget,
                                        write_evidence=not args.no_evidence)
    except SystemExit:
        raise
    except Exception:
        print("HARNESS-ERROR %s" % traceback.format_exc())
        rc = 2
    finally:
        try:
            root = scratch_root()
            shutil.rmtree(root, ignore_errors=True)
            # scratch directories of worker processes that are gone (pool workers leave theirs)
            base = os.path.dirname(root)
            for fn in os.listdir(base):
                if fn.startswith("mwsim-") and fn[6:].isdigit():
                    try:
                        os.kill(int(fn[6:]), 0)
                    except ProcessLookupError:
                        shutil.rmtree(os.path.join(base, fn), ignore_errors=True)
                    except Exception:
                        pass
        except Exception:
            pass
    sys.exit(rc)


if __name__ == "__main__":
    main()
