#!/bin/bash
# re-run every registered quick check in /verif against /repo (writes evidence/<id>.json),
# then validate MANIFEST.json and the evidence files against the schemas
cd "$(dirname "$0")/.."
rc=0
for p in C01 C02 C03 C04 C05 C06 C07 C08 C09 C10 C11 C12 C13 C14 C15 C16 C17 C18 C19 C20; do
  /venv/bin/python check.py --property $p --tier quick 2>&1 | grep -v conda | grep -E "^VIOLATION|^HARNESS|^property=|^KNOWN" | cut -c1-200
  [ ${PIPESTATUS[0]} -ne 0 ] && rc=1
done
python3-vt - <<'PY'
import json, jsonschema, glob
m = json.load(open("MANIFEST.json"))
jsonschema.validate(m, json.load(open("/root/.vp/MANIFEST.schema.json")))
es = json.load(open("/root/.vp/EVIDENCE.schema.json"))
lv = {c["property_id"]: c["level_claimed"]["category"] for c in m["checks"]}
for f in sorted(glob.glob("evidence/C*.json")):
    e = json.load(open(f))
    jsonschema.validate(e, es)
print("MANIFEST and %d evidence files valid" % len(glob.glob("evidence/C*.json")))
PY
exit $rc
