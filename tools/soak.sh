#!/bin/bash
# soak: every check at many batch seeds; prints only alarms and a per-seed summary
for s in $(seq ${1:-2} ${2:-40}); do
  for p in C01 C02 C03 C04 C05 C06 C07 C08 C09 C10 C11 C12 C13 C14 C15 C16 C17 C18 C19 C20; do
    out=$(VERIF_SEED=$s nice -n 10 /venv/bin/python check.py --property $p --tier quick --no-evidence 2>&1 | grep -E "^VIOLATION|clause=|HARNESS")
    if [ -n "$out" ]; then echo "seed=$s $p"; echo "$out" | cut -c1-700; fi
  done
  echo "seed $s done $(date +%H:%M:%S)"
done
