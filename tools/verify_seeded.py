#!/venv/bin/python
"""Confirm a sub-agent's seeded change independently and run the checks on it.

usage: verify_seeded.py <ID> [--src /tmp/mut-<ID>-out] [--props all|Cxx,...] [--keep]
Steps (all in a scratch worktree of /repo's HEAD on tmpfs, removed afterwards):
  1. patch applies; 2. the repo's test suite passes with it (121 passed);
  3. demo.py exits 1 with the change; 4. demo.py exits 0 without it;
  5. which registered checks report a VIOLATION on the changed tree (quick tier).
With --keep and all of 1-4 confirmed the change is stored as /verif/seeded/<ID>/.
"""
import os
import sys
import json
import shutil
import argparse
import subprocess
import time

VERIF = os.path.dirname(os.path.dirname(os.path.abspath(__file__)))
ALL = ["C%02d" % i for i in range(1, 21)]


def sh(cmd, **kw):
    return subprocess.run(cmd, shell=True, capture_output=True, text=True, **kw)


def main():
    ap = argparse.ArgumentParser()
    ap.add_argument("id")
    ap.add_argument("--src", default=None)
    ap.add_argument("--props", default="all")
    ap.add_argument("--keep", action="store_true")
    ap.add_argument("--fast", action="store_true", help="other properties' checks at 1200 runs only")
    ap.add_argument("--own-only", action="store_true",
                    help="re-run only the check of the property aimed at; other checks' verdicts are kept from meta.json")
    ap.add_argument("--name", default=None)
    ap.add_argument("--wt", default="/tmp/mut-%s")
    a = ap.parse_args()
    src = a.src or (a.wt % a.id) + "-out"
    name = a.name or a.id
    patch = os.path.join(src, "patch.diff")
    demo = os.path.join(src, "demo.py")
    wt = "/dev/shm/vs-%s-%d" % (a.id, os.getpid())
    res = {"id": a.id}
    r = sh("git -C /repo worktree add -q --detach %s HEAD" % wt)
    if r.returncode:
        print(r.stderr)
        return 2
    try:
        r = sh("git -C %s apply %s" % (wt, patch))
        if r.returncode:
            r = sh("git -C %s apply -3 %s" % (wt, patch))
        res["applies"] = r.returncode == 0
        if not res["applies"]:
            print("patch does not apply: %s" % r.stderr[:500])
            print(json.dumps(res))
            return 1
        r = sh("cd %s && PYTHONPATH=%s/src /venv/bin/python -m pytest -q -p no:cacheprovider --timeout=900 2>&1 | tail -1" % (wt, wt))
        res["tests"] = r.stdout.strip()
        res["tests_pass"] = "121 passed" in r.stdout and "failed" not in r.stdout
        sh("cd %s && rm -rf new.sql up.sql wormhole_mailbox_server.test.tes" % wt)
        r = sh("cd /dev/shm && timeout 300 /venv/bin/python %s %s/src" % (demo, wt))
        res["demo_with_change"] = r.returncode
        res["demo_output"] = (r.stdout + r.stderr)[-400:]
        # checks on the changed tree
        props = ALL if a.props == "all" else a.props.split(",")
        if a.own_only:
            props = [a.id]
        caught, details = [], {}
        for p in props:
            t0 = time.time()
            env = dict(os.environ, VERIF_REPO=wt, VERIF_STOP_FIRST="1")
            cmdl = [sys.executable, os.path.join(VERIF, "check.py"), "--property", p, "--tier", "quick", "--no-evidence"]
            if a.fast and p != a.id:
                cmdl += ["--runs", "1200" if p not in ("C10", "C19", "C20", "C04") else "300"]
            rr = subprocess.run(cmdl, env=env, capture_output=True, text=True, cwd=VERIF)
            lines = [l for l in rr.stdout.splitlines() if l.startswith(("VIOLATION", "  clause", "HARNESS"))]
            if rr.returncode == 1:
                caught.append(p)
                details[p] = lines[1].strip()[:300] if len(lines) > 1 else ""
            elif rr.returncode != 0:
                details[p] = "HARNESS-ERROR " + rr.stdout[-300:]
            print("  %s %s %.0fs %s" % (p, {0: "silent", 1: "VIOLATION"}.get(rr.returncode, "rc=%d" % rr.returncode),
                                      time.time() - t0, details.get(p, "")[:200]))
            sys.stdout.flush()
        res["caught_by"] = caught
        res["details"] = details
        sh("git -C %s reset -q --hard && git -C %s clean -fdq" % (wt, wt))
        r = sh("cd /dev/shm && timeout 300 /venv/bin/python %s %s/src" % (demo, wt))
        res["demo_without_change"] = r.returncode
        ok = res["tests_pass"] and res["demo_with_change"] == 1 and res["demo_without_change"] == 0
        res["confirmed"] = ok
        print(json.dumps({k: v for k, v in res.items() if k != "details"}, indent=1))
        if a.keep and ok:
            dst = os.path.join(VERIF, "seeded", name)
            os.makedirs(dst, exist_ok=True)
            if os.path.abspath(src) != os.path.abspath(dst):
                shutil.copy(patch, os.path.join(dst, "patch.diff"))
                shutil.copy(demo, os.path.join(dst, "demo.py"))
            meta = {}
            try:
                meta = json.load(open(os.path.join(src, "meta.json")))
            except Exception:
                pass
            meta.pop("check_details", None)
            meta["property"] = a.id
            meta["confirmed_by"] = {
                "tests_with_change": res["tests"], "demo_with_change_exit": res["demo_with_change"],
                "demo_without_change_exit": res["demo_without_change"],
                "commands": ["git apply patch.diff (scratch worktree of /repo HEAD %s)" % sh("git -C /repo rev-parse --short HEAD").stdout.strip(),
                             "PYTHONPATH=<wt>/src /venv/bin/python -m pytest -q -p no:cacheprovider --timeout=900",
                             "/venv/bin/python demo.py <wt>/src", "VERIF_REPO=<wt> check.py --property <each> --tier quick"]}
            if a.own_only:
                old = {}
                try:
                    old = json.load(open(os.path.join(dst, "meta.json")))
                except Exception:
                    pass
                others = [p for p in old.get("caught_by_checks", []) if p != a.id]
                od = {k: v for k, v in (old.get("check_details") or {}).items() if k != a.id}
                caught = sorted(set(others) | set(caught))
                od.update(details)
                details = od
                meta["other_checks_run_at"] = old.get("other_checks_run_at", "not run")
                meta["own_check_rerun_with"] = "verif " + sh("git -C %s rev-parse --short HEAD" % VERIF).stdout.strip()
            else:
                meta["other_checks_run_at"] = "1200 runs (300 for C04/C10/C19/C20)" if a.fast else "full quick tier"
            meta["caught_by_checks"] = caught
            meta["check_details"] = details
            json.dump(meta, open(os.path.join(dst, "meta.json"), "w"), indent=1)
            print("kept as %s" % dst)
    finally:
        sh("git -C /repo worktree remove --force %s" % wt)
        shutil.rmtree(wt, ignore_errors=True)
    return 0


if __name__ == "__main__":
    sys.exit(main())
