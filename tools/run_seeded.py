#!/venv/bin/python
"""Run registered checks against a seeded change without touching /repo:
a scratch worktree of /repo's HEAD is created on tmpfs, the patch applied,
the checks run with VERIF_REPO pointing at it, and the worktree removed.

usage: run_seeded.py <patch.diff> [--props C01,C02|all] [--tier quick] [--runs N] [--base HEAD]
"""
import os
import sys
import subprocess
import argparse
import shutil
import time

VERIF = os.path.dirname(os.path.dirname(os.path.abspath(__file__)))
ALL = ["C%02d" % i for i in range(1, 21)]


def sh(cmd, **kw):
    return subprocess.run(cmd, shell=True, capture_output=True, text=True, **kw)


def main():
    ap = argparse.ArgumentParser()
    ap.add_argument("patch")
    ap.add_argument("--props", default="all")
    ap.add_argument("--tier", default="quick")
    ap.add_argument("--runs", default="")
    ap.add_argument("--base", default="HEAD")
    ap.add_argument("--tests", action="store_true", help="also run the repo's own test suite on the patched tree")
    a = ap.parse_args()
    props = ALL if a.props == "all" else a.props.split(",")
    wt = "/dev/shm/seeded-%d" % os.getpid()
    r = sh("git -C /repo worktree add -q --detach %s %s" % (wt, a.base))
    if r.returncode:
        print(r.stderr)
        return 2
    try:
        r = sh("git -C %s apply %s" % (wt, os.path.abspath(a.patch)))
        if r.returncode:
            r = sh("git -C %s apply -3 %s" % (wt, os.path.abspath(a.patch)))
        if r.returncode:
            print("patch does not apply:", r.stderr)
            return 2
        if a.tests:
            r = sh("cd %s && PYTHONPATH=%s/src /venv/bin/python -m pytest -q -p no:cacheprovider --timeout=900 2>&1 | tail -1"
                   % (wt, wt))
            print("tests:", r.stdout.strip())
        caught = []
        for p in props:
            t0 = time.time()
            env = dict(os.environ, VERIF_REPO=wt, VERIF_STOP_FIRST="1")
            cmd = [sys.executable, os.path.join(VERIF, "check.py"), "--property", p, "--tier", a.tier, "--no-evidence"]
            if a.runs:
                cmd += ["--runs", a.runs]
            r = subprocess.run(cmd, env=env, capture_output=True, text=True, cwd=VERIF)
            lines = [l for l in r.stdout.splitlines() if l.startswith(("VIOLATION", "  clause", "HARNESS"))]
            status = {0: "silent", 1: "VIOLATION", 2: "HARNESS-ERROR"}.get(r.returncode, str(r.returncode))
            print("%s %-13s %.1fs %s" % (p, status, time.time() - t0, (" | " + lines[1].strip()[:260]) if len(lines) > 1 else ""))
            if r.returncode == 1:
                caught.append(p)
            if r.returncode == 2:
                print(r.stdout[-1500:], r.stderr[-1500:])
            sys.stdout.flush()
        print("caught by:", ",".join(caught) or "-")
    finally:
        sh("git -C /repo worktree remove --force %s" % wt)
        shutil.rmtree(wt, ignore_errors=True)
    return 0


if __name__ == "__main__":
    sys.exit(main())
