#!/venv/bin/python
"""Regenerates /verif/MANIFEST.json from the registry below (kept in one place
so that the file is valid at every commit)."""
import json
import os

VERIF = os.path.dirname(os.path.dirname(os.path.abspath(__file__)))

CHECKS = {
    "C01": ("exploration", "5 C01", "seeded deterministic simulation; history monitor of every open (replay set vs stored rows and vs adds of the mailbox incarnation)"),
    "C02": ("exploration", "5 C02", "seeded deterministic simulation; subscription monitor judging the fan-out of every add"),
    "C03": ("exploration", "5 C03", "seeded deterministic simulation; monitor over all claimed answers and nameplate incarnations"),
    "C04": ("exploration", "5 C04", "seeded deterministic simulation with RNG adversary; step-local check of every allocated answer"),
    "C05": ("exploration", "5 C05", "seeded deterministic simulation; admitted-sides monitor per mailbox/nameplate incarnation"),
    "C06": ("exploration", "5 C06", "seeded deterministic simulation; paired worlds (history vs its projection on one app) plus step-local isolation"),
    "C07": ("exploration", "5 C07", "seeded deterministic simulation; step-local refinement check of the nameplate slice against a reference transition function"),
    "C08": ("exploration", "5 C08", "seeded deterministic simulation; step-local refinement check of the mailbox slice against a reference transition function"),
    "C09": ("fault_enumeration", "5 C09", "deterministic simulation; every outbound frame of every run is a crash point checked through an independent reader"),
    "C10": ("fault_enumeration", "5 C10", "deterministic simulation; crash image at every commit boundary of a sampled step, two continuations each"),
    "C11": ("exploration", "5 C11", "seeded deterministic simulation; paired worlds (server kept vs rebuilt from the files)"),
    "C12": ("exploration", "5 C12", "seeded deterministic simulation through the real TimerService on a virtual clock; sweep monitor"),
    "C13": ("exploration", "5 C13", "seeded deterministic simulation with injected sweep failures; completeness, cadence and bounded liveness after faults stop"),
    "C14": ("exploration", "5 C14", "seeded deterministic simulation; paired worlds (history vs history with one acknowledged command re-sent)"),
    "C15": ("exploration", "5 C15", "seeded deterministic simulation; step-local usage-database delta against an independent classifier"),
    "C16": ("exploration", "5 C16", "seeded deterministic simulation; rounding check of every usage row over blur x fractional time x write path"),
    "C17": ("exploration", "5 C17", "seeded deterministic simulation; step-local frame grammar, state-unchanged and no-internal-failure checks"),
    "C18": ("exploration", "5 C18", "seeded deterministic simulation; the same history under the configuration matrix"),
    "C19": ("fault_enumeration", "5 C19", "fault injection at every file-system and SQL call of database creation (crash image and injected error)"),
    "C20": ("fault_enumeration", "5 C20", "crash image at every file-system and SQL statement of the schema upgrade, generated v1 contents"),
}

LEVEL_TEXT = {
    "exploration": "Seeded search over operation, schedule and fault sequences against the real server stack on a "
                   "virtual clock; every event is judged by an executable reference model / history monitor. A clean "
                   "batch is evidence, not proof; the property quantifies over unbounded histories, so sampling with "
                   "replayable seeds is the honest level.",
    "fault_enumeration": "Within every sampled history the fault points the property quantifies over (outbound frames / "
                         "commit boundaries / file-system and SQL calls) are enumerated completely; histories and "
                         "inputs themselves are sampled by seed.",
}

NOTE = ("Trusted: SQLite atomic commit and journal recovery, CPython, Twisted/autobahn as installed; the simulated "
        "clock/transport/RNG seams (module attributes, no source hooks); the reference model in mwsim/spec.py.")


def build(available, not_applicable):
    checks = []
    for pid in sorted(CHECKS):
        if pid not in available:
            continue
        level, ref, tech = CHECKS[pid]
        checks.append({
            "property_id": pid,
            "quick_cmd": "/venv/bin/python check.py --property %s --tier quick" % pid,
            "thorough_cmd": "/venv/bin/python check.py --property %s --tier thorough" % pid,
            "evidence_file": "evidence/%s.json" % pid,
            "replay_cmd_template": "/venv/bin/python check.py --replay {path}",
            "engine": "mwsim",
            "level_claimed": {"category": level, "text": LEVEL_TEXT[level], "design_ref": "DESIGN.md section " + ref},
            "level_note": NOTE,
            "technique": tech,
        })
    return {
        "version": 1,
        "setup_cmd": "/venv/bin/python -c \"import twisted, autobahn, txaio, sqlite3; print('ok')\"",
        "hooks": {
            "guard": "MAGIC_WORMHOLE_MAILBOX_SERVER_VERIF",
            "enable": "no hooks in /repo: every seam is a module attribute replaced from outside (DESIGN.md 3.1); "
                      "the guard name is reserved and unused",
            "baseline_off_cmd": "cd /repo && /venv/bin/python -m pytest -ra -q -p no:cacheprovider --timeout=900 "
                                "--continue-on-collection-errors",
            "source_commits": [],
            "add_only": True,
        },
        "engines": [{"name": "mwsim", "path": "mwsim/", "serves_properties": sorted(available),
                     "kind_free_text": "deterministic simulation with fault injection: real server stack on a virtual "
                                       "clock, in-memory transport, seeded scheduler, crash images, reference model"}],
        "checks": checks,
        "not_applicable": [{"property_id": p, "reason": r} for p, r in sorted(not_applicable.items())],
        "notes": "Exit codes: 0 held, 1 VIOLATION (with replay file), 2 HARNESS-ERROR (never a pass). "
                 "Eleven genuine defects were found by these checks; ten are repaired by 'fix:' commits in /repo "
                 "(F1-F6, F8-F11); one (F7, mailboxes.id is a global key) is an open known finding for C06 and C17: "
                 "see KNOWN_FINDINGS.txt and DESIGN.md section 6. DESIGN.md section 10 is the triage log of every "
                 "alarm raised on the unchanged tree, section 11 the record of which check catches which seeded "
                 "change (seeded/INDEX.md, mutants/).",
    }


if __name__ == "__main__":
    import sys
    sys.path.insert(0, VERIF)
    from mwsim import engines
    available = set(engines.available())
    na = {p: "check not built yet (work in progress; see DESIGN.md section 5 for the plan)"
          for p in CHECKS if p not in available}
    m = build(available, na)
    with open(os.path.join(VERIF, "MANIFEST.json"), "w") as f:
        json.dump(m, f, indent=1)
    print("MANIFEST.json: %d checks, %d not claimed" % (len(m["checks"]), len(m["not_applicable"])))
