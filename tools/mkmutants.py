#!/venv/bin/python
"""Builds /verif/mutants/*.patch (sensitivity corpus) and /verif/mutants/spec-*.patch
(specificity corpus: behaviour-preserving changes that must leave every check
silent) from string replacements on a scratch worktree of /repo's HEAD."""
import os
import subprocess
import shutil
import sys

VERIF = os.path.dirname(os.path.dirname(os.path.abspath(__file__)))
OUT = os.path.join(VERIF, "mutants")
S = "src/wormhole_mailbox_server/"

# name: (expected properties, file, old, new)
MUT = {
    "M01-replay-drops-mailbox-filter": ("C01", S + "server.py",
        '" WHERE `app_id`=? AND `mailbox_id`=?"\n                              " ORDER BY `server_rx` ASC",\n                              (self._app_id, self._mailbox_id)).fetchall():',
        '" WHERE `app_id`=?"\n                              " ORDER BY `server_rx` ASC",\n                              (self._app_id,)).fetchall():'),
    "M02-close-keeps-message-rows": ("C01,C13", S + "server.py",
        '        db.execute("DELETE FROM `messages` WHERE `mailbox_id`=?",\n                   (self._mailbox_id,))\n        db.execute("DELETE FROM `mailbox_sides` WHERE `mailbox_id`=?",\n                   (self._mailbox_id,))\n        db.execute("DELETE FROM `mailboxes` WHERE `id`=?", (self._mailbox_id,))',
        '        db.execute("DELETE FROM `mailbox_sides` WHERE `mailbox_id`=?",\n                   (self._mailbox_id,))\n        db.execute("DELETE FROM `mailboxes` WHERE `id`=?", (self._mailbox_id,))'),
    "M03-allocator-uses-listing-gated-accessor": ("C04,C18", S + "server.py",
        "        claimed = self._get_nameplate_ids()\n        for size in range(1,4)",
        "        claimed = self.get_nameplate_ids()\n        for size in range(1,4)"),
    "M04-crowding-counts-open-sides-only": ("C05", S + "server.py",
        '" WHERE `mailbox_id`=? ORDER BY `rowid`",\n                          (mailbox_id,)).fetchall()',
        '" WHERE `mailbox_id`=? AND `opened`=1 ORDER BY `rowid`",\n                          (mailbox_id,)).fetchall()'),
    "M05-list-without-app-filter": ("C06,C07,C18", S + "server.py",
        'c = db.execute("SELECT DISTINCT `name` FROM `nameplates`"\n                       " WHERE `app_id`=?", (self._app_id,))',
        'c = db.execute("SELECT DISTINCT `name` FROM `nameplates`")'),
    "M06-claim-lookup-without-app-filter": ("C06,C03", S + "server.py",
        '        row = db.execute("SELECT * FROM `nameplates`"\n                         " WHERE `app_id`=? AND `name`=?",\n                         (self._app_id, name)).fetchone()\n        if not row:\n            if self._log_requests:',
        '        row = db.execute("SELECT * FROM `nameplates`"\n                         " WHERE `name`=?",\n                         (name,)).fetchone()\n        if not row:\n            if self._log_requests:'),
    "M08-add-message-without-commit": ("C09", S + "server.py",
        "        self._touch(sm.server_rx)\n        self._db.commit()\n",
        "        self._touch(sm.server_rx)\n"),
    "M09-broadcast-before-persist": ("C09", S + "server.py",
        "        self._add_message(sm)\n        self.broadcast_message(sm)",
        "        self.broadcast_message(sm)\n        self._add_message(sm)"),
    "M11-expiry-shorter-than-documented": ("C12", S + "server_tap.py",
        "CHANNEL_EXPIRATION_TIME = 11*MINUTE", "CHANNEL_EXPIRATION_TIME = 6*MINUTE"),
    "M12-prune-does-not-restamp-subscribed": ("C12", S + "server.py",
        "            if mailbox.has_listeners():\n                log.msg(\"touch %s because listeners\" % mailbox._mailbox_id)\n                mailbox._touch(now)",
        "            if mailbox.has_listeners():\n                log.msg(\"touch %s because listeners\" % mailbox._mailbox_id)"),
    "M13-release-forgets-usage-record": ("C15", S + "server.py",
        "        if self._usage_db:\n            self._summarize_nameplate_and_store(side_rows, when, pruned=False)\n            self._usage_db.commit()\n        db.commit()",
        "        db.commit()"),
    "M14-client-version-stores-raw-time": ("C16", S + "server.py",
        "        if self._blur_usage:\n            server_rx = self._blur_usage * (server_rx // self._blur_usage)\n        implementation = client_version[0]",
        "        implementation = client_version[0]"),
    "M15-no-ack-for-list": ("C17", S + "server_websocket.py",
        "            self.send(\"ack\", id=msg.get(\"id\"))\n\n            mtype = msg[\"type\"]",
        "            mtype = msg[\"type\"]\n            if mtype != \"list\":\n                self.send(\"ack\", id=msg.get(\"id\"))"),
    "M16-create-renames-before-schema": ("C19", S + "database.py",
        "    db = _open_db_connection(temp_dbfile)\n    _initialize_db_schema(db, name, target_version)\n    db.close()\n    os.rename(temp_dbfile, dbfile)\n    return _open_db_connection(dbfile)",
        "    os.rename(temp_dbfile, dbfile)\n    db = _open_db_connection(dbfile)\n    _initialize_db_schema(db, name, target_version)\n    return db"),
    "M17-release-deletes-nameplate-regardless-of-other-claims": ("C07", S + "server.py",
        "        claims = [1 for sr in side_rows if sr[\"claimed\"]]\n        if claims:\n            return",
        "        claims = [1 for sr in side_rows if sr[\"claimed\"] and sr[\"side\"] == side]\n        if claims:\n            return"),
    "M18-close-deletes-when-closer-was-last-to-arrive": ("C08", S + "server.py",
        "        if any([sr[\"opened\"] for sr in side_rows]):\n            return",
        "        if any([sr[\"opened\"] for sr in side_rows[-1:]]):\n            return"),
    "M20-expire-without-try": ("C13", S + "server_tap.py",
        "        try:\n            server.prune_all_apps(now, old)\n        except Exception as e:\n            # catch-and-log exceptions during prune, so a single error won't\n            # kill the loop. See #13 for details.\n            log.msg(\"error during prune_all_apps\")\n            log.err(e)\n        server.dump_stats(now, rebooted=rebooted)",
        "        server.prune_all_apps(now, old)\n        server.dump_stats(now, rebooted=rebooted)"),
    "M22-status-row-counts-mailboxes-not-listeners": ("C15", S + "server.py",
        "        return sum(mailbox.count_listeners()\n                   for mailbox in self._mailboxes.values())",
        "        return sum(1 for mailbox in self._mailboxes.values()\n                   if mailbox.has_listeners())"),
    "M23-add-trusts-side-in-message": ("C02", S + "server_websocket.py",
        "sm = SidedMessage(side=self._side, phase=msg[\"phase\"],",
        "sm = SidedMessage(side=msg.get(\"side\", self._side), phase=msg[\"phase\"],"),
    "M24-close-keeps-listener": ("C02", S + "server_websocket.py",
        "        if self._listening:\n            self._mailbox.remove_listener(self)\n            self._listening = False\n        self._did_close = True",
        "        self._listening = False\n        self._did_close = True"),
    "M27-upgrade-backs-up-after-upgrading": ("C20", S + "database.py",
        "    if version < target_version and dbfile != \":memory:\":\n        backup_fn = \"%s-backup-v%d\" % (dbfile, version)\n        log.msg(\" storing backup of v%d db in %s\" % (version, backup_fn))\n        shutil.copy(dbfile, backup_fn)\n\n    while version < target_version:",
        "    old_version = version\n    while version < target_version:"),
    "M28-second-claim-allowed": ("C17", S + "server_websocket.py",
        "        if self._did_claim:\n            raise Error(\"only one claim per connection\")\n",
        ""),
    "M29-error-without-orig": ("C17", S + "server_websocket.py",
        "            self.send(\"error\", error=e._explain, orig=msg)",
        "            self.send(\"error\", error=e._explain)"),
    "M31-prune-keyed-by-side-count": ("C13", S + "server.py",
        "            if row[\"updated\"] > old:\n                new_mailboxes.add(mailbox_id)",
        "            if row[\"updated\"] > old or row[\"for_nameplate\"] == 0:\n                new_mailboxes.add(mailbox_id)"),
    "M32-prune-deletes-all-messages-of-app": ("C12", S + "server.py",
        "            db.execute(\"DELETE FROM `messages` WHERE `mailbox_id`=?\",\n                       (mailbox_id,))\n            db.execute(\"DELETE FROM `mailbox_sides` WHERE `mailbox_id`=?\",\n                       (mailbox_id,))\n            db.execute(\"DELETE FROM `mailboxes` WHERE `id`=?\",\n                       (mailbox_id,))\n            if self._usage_db:\n                self._summarize_mailbox_and_store(for_nameplate, side_rows,\n                                                  now, pruned=True)",
        "            db.execute(\"DELETE FROM `messages` WHERE `app_id`=?\",\n                       (self._app_id,))\n            db.execute(\"DELETE FROM `mailbox_sides` WHERE `mailbox_id`=?\",\n                       (mailbox_id,))\n            db.execute(\"DELETE FROM `mailboxes` WHERE `id`=?\",\n                       (mailbox_id,))\n            if self._usage_db:\n                self._summarize_mailbox_and_store(for_nameplate, side_rows,\n                                                  now, pruned=True)"),
    "M33-reclaim-after-release-allowed": ("C07", S + "server.py",
        "            if not row[\"claimed\"]:\n                raise ReclaimedError(\"you cannot re-claim a nameplate that your side previously released\")",
        "            if not row[\"claimed\"]:\n                db.execute(\"UPDATE `nameplate_sides` SET `claimed`=? WHERE `nameplates_id`=? AND `side`=?\", (True, npid, side))"),
    "M34-mood-precedence-swapped": ("C15", S + "server.py",
        "        if \"errory\" in moods:\n            result = \"errory\"\n        if \"scary\" in moods:\n            result = \"scary\"",
        "        if \"scary\" in moods:\n            result = \"scary\"\n        if \"errory\" in moods:\n            result = \"errory\""),
    "M35-open-does-not-touch": ("C12", S + "server.py",
        "        self._touch(when)\n        db.commit() # XXX: reconcile the need for this with the comment above",
        "        db.commit() # XXX: reconcile the need for this with the comment above"),
    "M36-claim-flag-set-after-success": ("C17", S + "server_websocket.py",
        "        self._did_claim = True\n        nameplate_id = msg[\"nameplate\"]\n        assert isinstance(nameplate_id, type(\"\")), type(nameplate_id)\n        self._nameplate_id = nameplate_id\n        try:\n            mailbox_id = self._app.claim_nameplate(nameplate_id, self._side,\n                                                   server_rx)\n        except CrowdedError:\n            raise Error(\"crowded\")\n        except ReclaimedError:\n            raise Error(\"reclaimed\")\n",
        "        nameplate_id = msg[\"nameplate\"]\n        assert isinstance(nameplate_id, type(\"\")), type(nameplate_id)\n        try:\n            mailbox_id = self._app.claim_nameplate(nameplate_id, self._side,\n                                                   server_rx)\n        except CrowdedError:\n            raise Error(\"crowded\")\n        except ReclaimedError:\n            raise Error(\"reclaimed\")\n        self._did_claim = True\n        self._nameplate_id = nameplate_id\n"),
}

SPEC = {
    "spec-S1-extra-commits": (S + "server.py",
        "        self._touch(when)\n        db.commit() # XXX",
        "        db.commit()\n        self._touch(when)\n        db.commit() # XXX"),
    "spec-S2-replay-order-by-rowid": (S + "server.py",
        '" ORDER BY `server_rx` ASC",', '" ORDER BY `rowid` ASC",'),
    "spec-S3-reworded-error-texts": (S + "server_websocket.py",
        'raise Error("only one claim per connection")', 'raise Error("a connection may claim once")'),
    "spec-S4-boundary-inclusive": (S + "server.py",
        '            if row["updated"] > old:', '            if row["updated"] >= old:'),
    "spec-S7-prune-frees-mailbox-objects": (S + "server.py",
        "        in_use = bool(self._mailboxes)\n",
        "        for mailbox_id in old_mailboxes:\n            self._mailboxes.pop(mailbox_id, None)\n        in_use = bool(self._mailboxes)\n"),
    "spec-S8-refused-side-row-not-kept": (S + "server.py",
        "        if side not in [r[\"side\"] for r in rows[:2]]:\n            raise CrowdedError(\"too many sides have opened this mailbox\")",
        "        if side not in [r[\"side\"] for r in rows[:2]]:\n            db.execute(\"DELETE FROM `mailbox_sides` WHERE `mailbox_id`=? AND `side`=?\", (mailbox_id, side))\n            db.commit()\n            raise CrowdedError(\"too many sides have opened this mailbox\")"),
    "spec-S5-log-lines": (S + "server.py",
        '        log.msg("beginning app prune")', '        log.msg("beginning app prune (sweep)")'),
}


def sh(cmd):
    return subprocess.run(cmd, shell=True, capture_output=True, text=True)


def main():
    wt = "/dev/shm/mutgen-%d" % os.getpid()
    r = sh("git -C /repo worktree add -q --detach %s HEAD" % wt)
    if r.returncode:
        print(r.stderr)
        return 2
    os.makedirs(OUT, exist_ok=True)
    bad = 0
    try:
        items = [(k, v[1], v[2], v[3], v[0]) for k, v in MUT.items()] + [(k, v[0], v[1], v[2], "") for k, v in SPEC.items()]
        for name, path, old, new, props in items:
            p = os.path.join(wt, path)
            s = open(p).read()
            if s.count(old) != 1:
                print("!! %s: pattern found %d times" % (name, s.count(old)))
                bad += 1
                continue
            open(p, "w").write(s.replace(old, new))
            d = sh("git -C %s diff" % wt).stdout
            header = "# expected to be caught by: %s\n" % props if props else "# behaviour-preserving: every check must stay silent\n"
            open(os.path.join(OUT, name + ".patch"), "w").write(d)
            open(os.path.join(OUT, name + ".expect"), "w").write(props + "\n")
            sh("git -C %s checkout -- ." % wt)
        print("wrote %d patches (%d failed)" % (len(items) - bad, bad))
    finally:
        sh("git -C /repo worktree remove --force %s" % wt)
        shutil.rmtree(wt, ignore_errors=True)
    return 1 if bad else 0


if __name__ == "__main__":
    sys.exit(main())
