#!/bin/bash
# sensitivity / specificity corpus: each patch against the checks expected to catch it
cd /verif
for f in mutants/M*.patch; do
  exp=$(cat ${f%.patch}.expect)
  echo "=== $f (expect $exp)"
  /venv/bin/python tools/run_seeded.py $f --props $exp ${TESTS:+--tests} 2>&1 | grep -v conda
done
for f in mutants/spec-*.patch; do
  echo "=== $f (expect silence)"
  /venv/bin/python tools/run_seeded.py $f --props all ${TESTS:+--tests} 2>&1 | grep -v conda
done
