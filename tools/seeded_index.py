#!/venv/bin/python
"""Writes /verif/seeded/INDEX.md from the meta.json files (which check catches which change)."""
import os
import json

VERIF = os.path.dirname(os.path.dirname(os.path.abspath(__file__)))
SEEDED = os.path.join(VERIF, "seeded")


def main():
    rows = []
    for d in sorted(os.listdir(SEEDED)):
        p = os.path.join(SEEDED, d, "meta.json")
        if not os.path.exists(p):
            continue
        m = json.load(open(p))
        prop = m.get("property", d[:3])
        caught = m.get("caught_by_checks", [])
        own = prop in caught
        st = m.get("status_on_current_tree")
        if st:
            own = "inert" if st.startswith("inert") else own
        rows.append((d, prop, own, caught, " ".join(str(m.get("summary", "")).split())[:230],
                     " ".join(str(m.get("needs_to_manifest", "")).split())[:200]))
    out = ["# Seeded changes (written by independent sub-agents, confirmed by tools/verify_seeded.py)", "",
           "Each directory holds patch.diff, demo.py (exits 1 with the change, 0 without) and meta.json.",
           "`own` = the check of the property the change was aimed at reports a VIOLATION within its quick tier.", "",
           "| change | aimed at | own check | all checks that fire | what the change does | what it needs to manifest |",
           "|---|---|---|---|---|---|"]
    for (d, prop, own, caught, summ, needs) in rows:
        out.append("| %s | %s | %s | %s | %s | %s |" % (d, prop, "inert after the F11 fix (was: yes)" if own == "inert" else
                                                     ("yes" if own else "**no**"), " ".join(caught) or "-",
                                                     summ.replace("|", "/"), needs.replace("|", "/")))
    n = len(rows)
    inert = sum(1 for r in rows if r[2] == "inert")
    k = sum(1 for r in rows if r[2] is True)
    a = sum(1 for r in rows if r[3] and r[2] != "inert")
    out += ["", "%d changes; %d of them no longer manifest on the current tree (they needed a state that a later fix removed); "
            "of the other %d, %d are caught by the check of the property they aim at and %d by at least one check."
            % (n, inert, n - inert, k, a)]
    open(os.path.join(SEEDED, "INDEX.md"), "w").write("\n".join(out) + "\n")
    print("\n".join(out[-1:]))
    for r in rows:
        if r[2] is False:
            print("not caught by own check:", r[0], "caught by", r[3])
        elif r[2] == "inert":
            print("inert on the current tree:", r[0])


if __name__ == "__main__":
    main()
