"""One simulated run of one world: generate (or replay) steps, execute them,
judge every event."""
from .world import World
from .checker import Checker
from .gen import Gen
from . import steps as S

MAX_EVENTS = 6000


class Result(object):
    def __init__(self):
        self.seed = None
        self.cfg = None
        self.rng_modes = None
        self.steps = []
        self.quiesce = False
        self.violations = []
        self.digest = None
        self.counters = {}
        self.probes = {}
        self.c09 = {}
        self.n_events = 0
        self.sim_seconds = 0.0
        self.shapes = set()
        self.transitions = set()
        self.harness_error = None
        self.facts = {}

    def spec(self):
        return {"seed": self.seed, "cfg": self.cfg, "rng_modes": self.rng_modes, "steps": self.steps,
                "quiesce": self.quiesce}


def run_single(seed, prof=None, spec=None, stop_at_first=True, keep_world=False, props=None,
               world_hook=None):
    """spec: {"cfg", "rng_modes", "steps", "quiesce"} to replay; else generate from seed+prof."""
    res = Result()
    res.seed = seed
    gen = None
    if spec is None:
        gen = Gen(seed, prof)
        cfg, modes, quiesce = gen.cfg, gen.rng_modes, gen.quiesce
    else:
        cfg, modes, quiesce = spec["cfg"], spec.get("rng_modes") or {}, spec.get("quiesce", False)
    res.cfg, res.rng_modes, res.quiesce = dict(cfg), dict(modes), quiesce
    w = World(seed, cfg, modes)
    chk = Checker(cfg)
    chk.welcome = w.expected_welcome()
    try:
        if world_hook:
            world_hook(w)
        ev = w.start()
        chk.feed(ev)
        i = 0
        todo = list(spec["steps"]) if spec is not None else None
        hit = False
        while True:
            if todo is not None:
                if i >= len(todo):
                    break
                st = todo[i]
            else:
                st = gen.next()
                if st is None:
                    break
            res.steps.append(st)
            for ev in S.exec_step(w, st, i):
                chk.feed(ev)
            i += 1
            if chk.stopped or (stop_at_first and _relevant(chk.viol, props)):
                hit = True
                break
            if len(w.history) > MAX_EVENTS:
                break
        if quiesce and not hit and not chk.stopped and w.running:
            for ev in S.exec_step(w, {"op": "quiesce"}, i):
                chk.feed(ev)
            chk.finish(w, quiesced=True)
        res.violations = list(chk.viol)
        res.digest = S.digest_history(w.history)
        res.counters = dict(w.counters)
        res.probes = dict(chk.probes)
        res.c09 = dict(w.stats_c09)
        res.n_events = len(w.history)
        res.sim_seconds = w.counters.get("sim_seconds", 0.0)
        res.shapes = chk.shapes
        res.transitions = chk.transitions
        res.faults_fired = list(w.faults_fired)
        if keep_world:
            res.world = w
            res.checker = chk
    finally:
        if not keep_world:
            w.dispose()
    return res


def _relevant(viol, props):
    if not viol:
        return False
    if props is None:
        return True
    return any(v["prop"] in props for v in viol)
