"""Deterministic simulator for the magic-wormhole mailbox server (see /verif/DESIGN.md)."""
