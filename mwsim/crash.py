"""C10: crash images.  While a generated history runs, the directory (both
databases and their journals) is copied at every commit boundary and every
outbound frame; every distinct image is then explored in fresh worlds:
  (a) the real start-up opens it; no duplicate / orphan records
  (b) nobody returns: sweeps run without internal error and empty the store
  (c) clients resume: reconnect, re-open, re-send the interrupted command and
      carry on - same answers and same stored state as without the crash
"""
import os
import json
import shutil
import sqlite3

from .harness import Engine, steps_hash
from .engines import COMMON_ASSUMPTIONS
from .gen import PROFILES, Gen
from .world import World
from . import alpha
from .checker import Checker
from .spec import EXPIRY, PERIOD
from . import steps as S
from . import minimize
from .seams import make_rng

MAX_IMAGES = 24


def integrity(chan):
    """duplicate / orphan records in alpha(channel)"""
    bad = []
    seen = set()
    for n in chan.nameplates:
        k = (n.app, n.name)
        if k in seen:
            bad.append("duplicate nameplate %r" % (k,))
        seen.add(k)
        ss = [s.side for s in n.sides]
        if len(ss) != len(set(ss)):
            bad.append("duplicate side rows on nameplate %r: %r" % (k, ss))
    seen = set()
    for m in chan.mailboxes:
        if m.id in seen:
            bad.append("duplicate mailbox %r" % (m.id,))
        seen.add(m.id)
        ss = [s.side for s in m.sides]
        if len(ss) != len(set(ss)):
            bad.append("duplicate side rows on mailbox %r: %r" % (m.id, ss))
    if chan.orphan_np_sides:
        bad.append("nameplate side rows without nameplate: %r" % (chan.orphan_np_sides,))
    if chan.orphan_mb_sides:
        bad.append("mailbox side rows without mailbox: %r" % (chan.orphan_mb_sides,))
    if chan.dangling_nps:
        bad.append("nameplates whose mailbox is missing: %r" % (chan.dangling_nps,))
    return bad


def copy_image(src, root, tag):
    dst = os.path.join(root, "c10-%d-%s" % (os.getpid(), tag))
    shutil.rmtree(dst, ignore_errors=True)
    shutil.copytree(src, dst)
    return dst


class C10Engine(Engine):
    pid = "C10"
    level = "fault_enumeration"
    RUNS = (500, 15000)
    assumptions = COMMON_ASSUMPTIONS + [
        "a crash image is the directory content between two Python-level database calls; SQLite's own commit is atomic"]
    rule = ("seeded histories (claim/release/close/sweep heavy, with and without usage db) run with image capture: the "
            "directory is copied before and after every commit of either database and at every outbound frame, images "
            "are de-duplicated by content (up to %d per history are explored); each image is opened by the real start-up "
            "and (a) checked for duplicate/orphan records, (b) left alone for 2x(660+300) s: no internal error, live "
            "sweep loop, empty store; (c) resumed by reconnecting clients that re-send the interrupted command, and "
            "compared with the uncrashed run; non-trivial = an image taken strictly between two commits of one "
            "command or sweep" % MAX_IMAGES)

    def runs(self, tier):
        return self.RUNS[0] if tier == "quick" else self.RUNS[1]

    def gen_spec(self, seed):
        g = Gen(seed, PROFILES["C10"])
        steps = []
        while True:
            st = g.next()
            if st is None:
                break
            steps.append(st)
        return {"seed": seed, "cfg": dict(g.cfg), "rng_modes": {"choice": "keyed", "randrange": "keyed"},
                "steps": steps, "quiesce": False}

    def respec(self, seed, tier):
        return self.gen_spec(seed)

    # ------------------------------------------------------------------
    def explore(self, spec, only_image=None):
        seed, cfg, modes = spec["seed"], spec["cfg"], spec["rng_modes"]
        viol = []
        facts = {"counters": {}, "probes": {}, "events": 0, "sim": 0.0, "extra": {}}
        w = World(seed, cfg, modes, name="c10")
        chk = Checker(cfg)
        chk.welcome = w.expected_welcome()
        images = []
        conn_info = {}
        try:
            w.capture = True
            chk.feed(w.start())
            target = self.pick_target(spec)
            spec["target"] = target
            clients = None
            for i, st in enumerate(spec["steps"]):
                n_before = len(w.images)
                if i == target:
                    # what every connected client knows just before the interrupted command
                    clients = self.client_view(w, chk)
                    self._all_last = {cid: dict(c.last) for cid, c in w.conns.items()}
                    # the state as the running server itself sees it (its connection's view)
                    try:
                        self._own_view = alpha.read_channel(w.dbs["channel"])
                    except Exception:
                        self._own_view = None
                    w._image_hashes = {}
                    w.take_image("pre-step")
                for ev in S.exec_step(w, st, i):
                    chk.feed(ev)
                # images of this step, with what the clients looked like before it
                for rec in w.images[n_before:]:
                    rec["step"] = i
                if chk.stopped:
                    break
            # an image "between two commits of one operation": not the last image of its event
            by_event = {}
            for rec in w.images:
                by_event.setdefault(rec["event"], []).append(rec)
            for evi, recs in by_event.items():
                for rec in recs[:-1]:
                    if rec["label"].startswith(("post-commit", "post-execute")):
                        rec["between"] = True
            facts["events"] += len(w.history)
            facts["sim"] += w.counters.get("sim_seconds", 0.0)
            for k, x in w.counters.items():
                facts["counters"][k] = facts["counters"].get(k, 0) + x
            imgs = list(w.images)
            facts["extra"]["image_points"] = w.counters.get("image_points", 0)
            facts["extra"]["distinct_images"] = len(imgs)
            if only_image is not None:
                imgs = [r for r in imgs if (r["event"], r["point"], r["label"]) == tuple(only_image)]
            elif len(imgs) > MAX_IMAGES:
                rng = make_rng(seed, "c10-sample")
                between = [r for r in imgs if r.get("between")]
                rest = [r for r in imgs if not r.get("between")]
                rng.shuffle(between)
                rng.shuffle(rest)
                imgs = (between + rest)[:MAX_IMAGES]
            explored = 0
            nontrivial = False
            for rec in imgs:
                explored += 1
                if rec.get("between"):
                    nontrivial = True
                    facts["extra"]["images_between_commits"] = facts["extra"].get("images_between_commits", 0) + 1
                if rec["label"].startswith("pre-commit"):
                    facts["extra"]["images_with_hot_journal"] = facts["extra"].get("images_with_hot_journal", 0) + 1
                vs = self.nobody_returns(spec, rec, facts)
                if not vs:
                    vs = self.new_clients_served(spec, rec, facts)
                for v in vs:
                    v["image"] = [rec["event"], rec["point"], rec["label"]]
                viol += vs
                if vs:
                    break
            facts["extra"]["images_explored"] = explored
            facts["nontrivial"] = nontrivial
            # (c) clients resume
            if not viol and target is not None and clients is not None and not chk.stopped and only_image is None:
                timgs = [r for r in w.images if r.get("step") == target]
                vs = self.clients_resume(spec, target, clients, timgs, facts)
                viol += vs
        finally:
            w.dispose()
        return viol, facts

    RESEND = ("claim", "release", "open", "close")

    def pick_target(self, spec):
        if "target" in spec:
            return spec["target"]
        cands = [i for i, st in enumerate(spec["steps"])
                 if st["op"] == "send" and isinstance(st["m"], dict) and st["m"].get("type") in self.RESEND]
        if not cands:
            return None
        return make_rng(spec["seed"], "c10-target").choice(cands)

    def client_view(self, w, chk):
        out = {}
        for cid, c in sorted(w.conns.items()):
            if not c.alive:
                continue
            cm = chk.conns.get(cid)
            out[cid] = {"app": cm.app if cm else None, "side": cm.side if cm else None,
                        "reopen": (cm.named if (cm and cm.held and not cm.stale) else None),
                        "np": cm.np if cm else None, "named": cm.named if cm else None,
                        "last": dict(c.last), "uncertain": bool(cm and cm.uncertain)}
        return out

    def continuation(self, spec, target, clients):
        """reconnects of every client, the re-sent command, the rest of the history"""
        OFF = 500000
        cmap = {cid: cid + OFF for cid in clients}

        def remap(x):
            if isinstance(x, dict):
                if "ref" in x and set(x) <= {"ref", "c"}:
                    if x["c"] not in cmap:
                        # a connection that was gone before the crash: what it had been
                        # told is plain client knowledge
                        lit = getattr(self, "_all_last", {}).get(x["c"], {}).get(x["ref"])
                        return lit if lit is not None else x
                    return {"ref": x["ref"], "c": cmap[x["c"]]}
                return {k: remap(v) for k, v in x.items()}
            if isinstance(x, list):
                return [remap(v) for v in x]
            return x
        cont = []
        for cid, info in sorted(clients.items()):
            cont.append({"op": "reconnect", "c": cmap[cid], "app": info["app"], "side": info["side"],
                         "last": info["last"], "reopen": info["reopen"]})
        st = spec["steps"][target]
        if st["c"] not in clients or clients[st["c"]]["app"] is None:
            return None, None
        info = clients[st["c"]]
        m = remap(st["m"])
        m = dict(m)
        t = m.get("type")
        if t == "release" and "nameplate" not in m:
            if info["np"] is None:
                return None, None
            m["nameplate"] = info["np"]
        if t == "close" and "mailbox" not in m:
            if info["named"] is None:
                return None, None
            m["mailbox"] = info["named"]
        if t == "open" and info["reopen"] is not None:
            return None, None     # it already held a mailbox: the command was an error case
        resend_at = len(cont)
        cont.append({"op": "send", "c": cmap[st["c"]], "m": m})
        for st2 in spec["steps"][target + 1:]:
            s2 = remap(st2)
            if "c" in s2 and s2["c"] in cmap:
                s2["c"] = cmap[s2["c"]]
            cont.append(s2)
        return cont, resend_at

    def run_cont(self, w, cont, base):
        frames = {}
        errs = []
        for k, st in enumerate(cont):
            for ev in S.exec_step(w, st, base + k):
                for (c, f) in ev.frames:
                    frames.setdefault(c, []).append((k, {kk: vv for kk, vv in f.items() if kk != "server_tx"}))
                for e in ev.errors:
                    if e.get("kind") in ("internal_error", "start_failed"):
                        errs.append((k, e))
        return frames, errs

    def clients_resume(self, spec, target, clients, images, facts):
        from .paired import Renamer
        viol = []
        if any(c["uncertain"] for c in clients.values()):
            return viol
        # unspecified zone (7.2): a side that closed and then re-opened is subscribed although its
        # row says "closed".  Whether its re-open comes before or after another side's (re-sent)
        # last close decides whether the mailbox is deleted, and the two worlds order these differently.
        view = getattr(self, "_own_view", None)
        if view is not None:
            for cid, info in clients.items():
                if info["reopen"] is not None and info["app"] is not None:
                    mb = view.mb(info["app"], info["reopen"])
                    row = mb.side(info["side"]) if mb is not None else None
                    if row is not None and row.flag is False:
                        facts["extra"]["resume_skipped_reopened_zone"] = \
                            facts["extra"].get("resume_skipped_reopened_zone", 0) + 1
                        return viol
        cont, resend_at = self.continuation(spec, target, clients)
        if cont is None:
            return viol
        seed, cfg, modes = spec["seed"], spec["cfg"], spec["rng_modes"]
        BASE = 100000
        # reference: no crash, but the same drop / reconnect / re-open / re-send
        wu = World(seed, cfg, modes, name="c10u")
        try:
            wu.start()
            for i, st in enumerate(spec["steps"][:target + 1]):
                S.exec_step(wu, st, i)
            # "as if no crash had happened": the server object is kept; the clients drop and
            # the periodic timer is re-started so that both worlds share the sweep phase
            S.exec_step(wu, {"op": "bounce"}, target)
            fu, eu = self.run_cont(wu, cont, BASE)
            final_u = wu.history[-1].post
            facts["events"] += len(wu.history)
            if eu:
                return viol       # the reference itself failed: judged by the other checks
        finally:
            wu.dispose()
        facts["extra"]["resume_targets"] = facts["extra"].get("resume_targets", 0) + 1
        kind = spec["steps"][target]["m"].get("type")
        facts["extra"]["resume_" + kind] = facts["extra"].get("resume_" + kind, 0) + 1
        for rec in images:
            root = os.path.dirname(rec["path"])
            d = copy_image(rec["path"], root, "rs")
            rdr = sqlite3.connect(os.path.join(d, "channel.sqlite"))
            try:
                image_state = alpha.read_channel(rdr)    # (opening it runs SQLite's journal recovery)
            finally:
                rdr.close()
            wc = World(seed, cfg, modes, dirname=d, t0=rec["t"], name="c10c", rng_salt="-resumed")
            wc.wall_jump = rec.get("wall_jump", 0.0)
            where = "crash in step %d (%s) at %s (point %s)" % (target, kind, rec["label"], rec["point"])
            try:
                ev = wc.start(kind="restart")
                if any(e.get("kind") == "start_failed" for e in ev.errors):
                    viol.append(self.v("image-opens", "%s: the server does not start on the image" % where, target))
                    break
                # unspecified zone: a channel that was already past its expiry time but not
                # yet swept.  The sweep that every start runs at once deletes it before the
                # client can re-send, whereas the uncrashed command would have revived it.
                now = wc.wall()
                # (judged on the running server's own view: if only the *image* looks expired,
                # the server had failed to make a keep-alive stamp durable - not a zone)
                ref_state = getattr(self, "_own_view", None) or image_state
                if any(m.updated is not None and m.updated <= now - EXPIRY for m in ref_state.mailboxes):
                    facts["extra"]["resume_skipped_expired_unswept"] = \
                        facts["extra"].get("resume_skipped_expired_unswept", 0) + 1
                    continue
                fc, ec = self.run_cont(wc, cont, BASE)
                facts["events"] += len(wc.history)
                facts["extra"]["resume_images"] = facts["extra"].get("resume_images", 0) + 1
                if rec.get("between"):
                    facts["extra"]["resume_images_between_commits"] = facts["extra"].get("resume_images_between_commits", 0) + 1
                if ec:
                    k, e = ec[0]
                    viol.append(self.v("resumed-clients-served-without-internal-error",
                                       "%s: after restart, continuation step %d raised %s: %s at %s"
                                       % (where, k, e.get("type"), e.get("text"), e.get("where")), target))
                    break
                ru, rc = Renamer(), Renamer()
                bad = None
                for c in sorted(set(fu) | set(fc)):
                    a = [(k, ru.frame(f)) for (k, f) in fu.get(c, []) if k >= resend_at]
                    b = [(k, rc.frame(f)) for (k, f) in fc.get(c, []) if k >= resend_at]
                    if a != b:
                        i = 0
                        while i < min(len(a), len(b)) and a[i] == b[i]:
                            i += 1
                        bad = "conn %s: frame #%d from the re-send on is %r without the crash, %r after it" % (
                            c, i, a[i] if i < len(a) else None, b[i] if i < len(b) else None)
                        break
                if bad:
                    viol.append(self.v("resume-same-answers", "%s: %s" % (where, bad), target))
                    break
                ku, kc = ru.chan(final_u), rc.chan(wc.history[-1].post)
                if ku != kc:
                    viol.append(self.v("resume-same-stored-state",
                                       "%s: stored state at the end differs: without crash %s / resumed %s"
                                       % (where, ku, kc), target))
                    break
            finally:
                wc.dispose()
        return viol

    def v(self, clause, text, step=None, sig=None):
        return {"prop": "C10", "clause": clause, "event": None, "step": step, "text": text, "sig": sig}

    def nobody_returns(self, spec, rec, facts):
        viol = []
        root = os.path.dirname(rec["path"])
        d = copy_image(rec["path"], root, "nr")
        w2 = World(spec["seed"], spec["cfg"], spec["rng_modes"], dirname=d, t0=rec["t"] + 0.001, name="c10nr")
        w2.wall_jump = rec.get("wall_jump", 0.0)
        where = "image at step %s (%s, point %s)" % (rec.get("step"), rec["label"], rec["point"])
        try:
            ev = w2.start(kind="restart")
            bad = [e for e in ev.errors if e.get("kind") == "start_failed"]
            if bad:
                viol.append(self.v("image-opens", "%s: the server does not start on it: %s %s"
                                   % (where, bad[0].get("type"), bad[0].get("text")), rec.get("step")))
                return viol
            for b in integrity(ev.pre if ev.pre is not None else ev.post):
                viol.append(self.v("no-duplicate-or-orphan-records", "%s: %s" % (where, b), rec.get("step")))
            errs = [e for e in ev.errors if e.get("kind") in ("logged_error", "internal_error")]
            evs = [ev] + w2.advance(2 * (EXPIRY + PERIOD) + 1.0)
            facts["sim"] += 2 * (EXPIRY + PERIOD)
            facts["events"] += len(evs)
            sweeps = 0
            for e2 in evs:
                if e2.notes.get("sweep"):
                    sweeps += 1
                for e in e2.errors:
                    if e.get("kind") in ("logged_error", "internal_error"):
                        viol.append(self.v("sweeps-without-internal-error",
                                           "%s: restarted server, nobody returns: sweep at t=%.1f raised %s: %s at %s"
                                           % (where, e2.t, e.get("type"), e.get("text"), e.get("where")), rec.get("step")))
                        return viol
                if e2.notes.get("loop_alive") is False:
                    viol.append(self.v("sweep-loop-survives", "%s: sweep loop died" % where, rec.get("step")))
                    return viol
            facts["counters"]["sweeps"] = facts["counters"].get("sweeps", 0) + sweeps
            last = w2.history[-1].post
            if not last.is_empty():
                viol.append(self.v("store-empties-when-nobody-returns",
                                   "%s: %d s after the restart with no client the store still holds %r"
                                   % (where, int(2 * (EXPIRY + PERIOD)), last.counts()), rec.get("step")))
        finally:
            w2.dispose()
        return viol

    def new_clients_served(self, spec, rec, facts):
        """(d) the restarted server serves clients that were never there before: every app that
        has records in the image gets three new sides, each allocates (the allocator picking the
        smallest name it thinks is free), claims, opens, adds and lists; no command may fail
        internally and no allocated name may be one that is in use in the image"""
        viol = []
        root = os.path.dirname(rec["path"])
        d = copy_image(rec["path"], root, "nc")
        modes = dict(spec["rng_modes"], choice="min")
        w2 = World(spec["seed"], spec["cfg"], modes, dirname=d, t0=rec["t"] + 0.001, name="c10nc", rng_salt="-newcomers")
        w2.wall_jump = rec.get("wall_jump", 0.0)
        where = "image at step %s (%s, point %s)" % (rec.get("step"), rec["label"], rec["point"])
        try:
            ev = w2.start(kind="restart")
            if any(e.get("kind") == "start_failed" for e in ev.errors):
                return viol          # reported by (b)
            img = ev.pre if ev.pre is not None else ev.post
            apps = sorted(a for a in img.apps() if isinstance(a, str))[:2]
            cid = 700000
            for app in apps:
                used = set(n.name for n in img.nameplates if n.app == app)
                got = []
                for k in range(3):
                    cid += 1
                    steps = [{"op": "connect", "c": cid},
                             {"op": "send", "c": cid, "m": {"type": "bind", "appid": app, "side": "newcomer%d" % k}},
                             {"op": "send", "c": cid, "m": {"type": "allocate"}},
                             {"op": "send", "c": cid, "m": {"type": "claim", "nameplate": {"ref": "allocated", "c": cid}}},
                             {"op": "send", "c": cid, "m": {"type": "open", "mailbox": {"ref": "claimed", "c": cid}}},
                             {"op": "send", "c": cid, "m": {"type": "add", "phase": "p", "body": "00"}},
                             {"op": "send", "c": cid, "m": {"type": "list"}}]
                    for st in steps:
                        for e2 in S.exec_step(w2, st, rec.get("step")):
                            facts["events"] += 1
                            for e in e2.errors:
                                if e.get("kind") in ("logged_error", "internal_error"):
                                    viol.append(self.v("serves-new-clients",
                                                       "%s: restarted server, new client of app %r sends %r: %s: %s at %s"
                                                       % (where, app, st.get("m", {}).get("type", st["op"]), e.get("type"),
                                                          e.get("text"), e.get("where")), rec.get("step")))
                                    return viol
                    name = w2.conns[cid].last.get("allocated")
                    if name is None or "claimed" not in w2.conns[cid].last:
                        viol.append(self.v("serves-new-clients", "%s: new client of app %r was not served: knows %r"
                                           % (where, app, sorted(w2.conns[cid].last)), rec.get("step")))
                        return viol
                    if name in used or name in got:
                        viol.append(self.v("serves-new-clients", "%s: new client of app %r was allocated %r, which is in use"
                                           % (where, app, name), rec.get("step")))
                        return viol
                    got.append(name)
                facts["extra"]["new_clients_served"] = facts["extra"].get("new_clients_served", 0) + len(got)
        finally:
            w2.dispose()
        return viol

    # ------------------------------------------------------------------
    PREP = r"""
import sys, warnings
warnings.simplefilter("ignore")
sys.path.insert(0, sys.argv[1])
from wormhole_mailbox_server import database, server
n_mb, n_msg, size, t0 = [int(x) for x in sys.argv[2].split(",")]
import random, os, itertools
random.seed(n_mb * 1000 + n_msg)           # the allocator's choices: the same store every time
_ctr = itertools.count()
server.os = type("O", (), {"urandom": staticmethod(lambda n: (next(_ctr)).to_bytes(n, "big"))})
db = database.create_or_upgrade_channel_db(sys.argv[3])
srv = server.make_server(db)
for a in range(2):
    app = srv.get_app("app%d" % a)
    for i in range(n_mb):
        name = app.allocate_nameplate("s1", t0 + i)
        mid = app.claim_nameplate(name, "s1", t0 + i)
        mb = app.open_mailbox(mid, "s1", t0 + i)
        app.claim_nameplate(name, "s2", t0 + i + 1)
        app.open_mailbox(mid, "s2", t0 + i + 1)
        for j in range(n_msg):
            mb.add_message(server.SidedMessage(side="s1", phase="p%d" % j, body="%04d" % j + "ab" * (size // 2),
                                               server_rx=t0 + i + 2, msg_id="m%d" % j))
db.close()
"""
    SWEEP = r"""
import sys, warnings
warnings.simplefilter("ignore")
sys.path.insert(0, sys.argv[1])
from wormhole_mailbox_server import database, server
n_mb, n_msg, size, t0 = [int(x) for x in sys.argv[2].split(",")]
db = database.create_or_upgrade_channel_db(sys.argv[3])
srv = server.make_server(db)
now = t0 + 5000
srv.prune_all_apps(now, now - 660)
db.close()
"""

    def sweep_killed_anywhere(self, seed, facts):
        """(e) a real server process that runs the expiry sweep on real files is killed (as by kill -9)
        right before each of its file-system operations in turn; what it leaves must open, pass
        the integrity check and hold, per app, either everything or nothing of that app"""
        from . import dbsim
        from . import seams
        import subprocess
        import sys
        viol = []
        big = (seed % 500 == 0)
        shape = (8, 100, 3400, 1700000000) if big else (2, 3, 40, 1700000000)
        arg = ",".join(str(x) for x in shape)
        root = dbsim.scratch_root()
        seed_dir = os.path.join(root, "c10e-%d-%d" % (os.getpid(), seed))
        os.makedirs(seed_dir, exist_ok=True)
        seed_db = os.path.join(seed_dir, "relay.sqlite")
        try:
            r = subprocess.run([sys.executable, "-c", self.PREP, os.path.join(seams.REPO, "src"), arg, seed_db],
                               capture_output=True, timeout=300, env=dict(os.environ, PYTHONHASHSEED="0"))
            if r.returncode != 0:
                raise RuntimeError("C10 (e): could not prepare the store: %s" % r.stderr.decode("utf-8", "replace")[-400:])
            con = sqlite3.connect(seed_db)
            pre = alpha.read_channel(con)
            con.close()
            per_app = {a: len([m for m in pre.mailboxes if m.app == a]) for a in pre.apps()}
            n = [0]

            def make_dir(tag):
                n[0] += 1
                dd = os.path.join(root, "c10e-%d-%d-%s" % (os.getpid(), seed, tag))
                os.makedirs(dd, exist_ok=True)
                shutil.copyfile(seed_db, os.path.join(dd, "relay.sqlite"))
                return dd, os.path.join(dd, "relay.sqlite")

            def judge(dd, label):
                pth = os.path.join(dd, "relay.sqlite")
                try:
                    con = sqlite3.connect(pth)
                    try:
                        ok = con.execute("PRAGMA integrity_check").fetchall()
                        if ok != [("ok",)]:
                            return "%s: integrity check of what is left: %r" % (label, ok[:3])
                        post = alpha.read_channel(con)
                    finally:
                        con.close()
                except Exception as e:
                    return "%s: what is left cannot be read: %s: %s" % (label, type(e).__name__, e)
                bad = integrity(post)
                if bad:
                    return "%s: %s" % (label, bad[0])
                for a, cnt in sorted(per_app.items()):
                    left = [m for m in post.mailboxes if m.app == a]
                    msgs = sum(len(m.msgs) for m in left)
                    want = sum(len(m.msgs) for m in pre.mailboxes if m.app == a)
                    if not ((len(left) == cnt and msgs == want) or (len(left) == 0 and msgs == 0)):
                        return ("%s: app %r is left with %d of %d mailboxes and %d of %d messages (the sweep of one app "
                                "is one transaction)" % (label, a, len(left), cnt, msgs, want))
                    if len(left) == 0 and (post.names(a) or [o for o in post.orphan_msgs if o[0] == a]):
                        return "%s: app %r has no mailboxes but nameplates or messages are left" % (label, a)
                return None
            nops, res = dbsim.syscall_kill_points(arg, make_dir, judge, threads=8, script=self.SWEEP, sample=200)
            if nops == 0:
                facts["extra"]["sweep_kill_skipped"] = 1
            else:
                ops, problems = res
                facts["extra"]["sweep_syscall_kill_points"] = facts["extra"].get("sweep_syscall_kill_points", 0) + min(nops, 200)
                facts["counters"]["fault_crash_syscall"] = facts["counters"].get("fault_crash_syscall", 0) + min(nops, 200)
                if big:
                    facts["extra"]["sweep_kill_large_transaction"] = 1
                for (k, text) in problems[:1]:
                    viol.append(self.v("sweep-killed-at-any-syscall", text))
        finally:
            shutil.rmtree(seed_dir, ignore_errors=True)
        return viol

    def evaluate(self, seed, tier):
        spec = self.gen_spec(seed)
        viol, facts = self.explore(spec)
        if not viol and seed % 100 == 0:
            vs = self.sweep_killed_anywhere(seed, facts)
            if vs:
                viol += vs
                spec = dict(spec, steps=[], sweep_kill=seed)
        s = {"seed": seed, "viol": viol, "hash": steps_hash(spec["steps"], spec["cfg"]),
             "nontrivial": bool(facts.get("nontrivial")), "counters": facts["counters"], "probes": facts["probes"],
             "events": facts["events"], "steps": len(spec["steps"]), "sim": facts["sim"], "shapes": set(),
             "trans": set(), "extra": facts["extra"]}
        if viol or seed % 100 == 0:
            s["spec"] = spec
        return s

    def replay(self, spec):
        if spec.get("sweep_kill") is not None:
            return self.sweep_killed_anywhere(spec["sweep_kill"], {"counters": {}, "extra": {}})
        return self.explore(spec)[0]

    def minimise(self, spec, v):
        clause = v["clause"]
        if spec.get("sweep_kill") is not None:
            return spec

        def fails(steps):
            try:
                return any(x["clause"] == clause for x in self.replay(dict(spec, steps=steps)))
            except Exception:
                return False
        steps = minimize.ddmin(spec["steps"], fails, budget_s=90.0)
        steps = minimize.simplify_steps(steps, fails, budget_s=20.0)
        return dict(spec, steps=steps)

    def extra_evidence(self, agg):
        e = agg["extra"]
        return {"crash_points_seen": e.get("image_points", 0), "distinct_images": e.get("distinct_images", 0),
                "images_explored": e.get("images_explored", 0),
                "images_between_commits_of_one_operation": e.get("images_between_commits", 0),
                "images_with_hot_journal": e.get("images_with_hot_journal", 0),
                "new_clients_served_on_images": e.get("new_clients_served", 0),
                "sweep_syscall_kill_points": e.get("sweep_syscall_kill_points", 0),
                "sweep_kill_with_transaction_larger_than_page_cache": e.get("sweep_kill_large_transaction", 0)}
