"""Single-world oracles: every event of a history is judged against the
reference transition function (spec.py) applied to the *observed* pre-state,
plus history monitors (subscriptions, incarnations, admitted sides).
Each difference is attributed to the property whose slice it falls in
(DESIGN.md Appendix B)."""
import json
from collections import Counter

from . import spec
from .spec import ConnModel, EXPIRY, PERIOD
from .checker_cmds import CommandMixin

EPS = 1e-6


class Sub(object):
    """one command with its own pre/post state and frames (a batch is split)"""
    __slots__ = ("ev", "msg", "pre", "post", "upre", "upost", "frames", "cid", "k")

    def __init__(self, ev, msg, pre, post, upre, upost, frames, k=0):
        self.ev = ev
        self.msg = msg
        self.pre, self.post, self.upre, self.upost = pre, post, upre, upost
        self.frames = frames
        self.cid = ev.conn
        self.k = k

    def mine(self):
        return [f for (c, f) in self.frames if c == self.cid]

    def others(self):
        return [(c, f) for (c, f) in self.frames if c != self.cid]


class Checker(CommandMixin):
    def __init__(self, cfg, initial=None):
        self.cfg = cfg
        self.blur = cfg.get("blur") or None
        self.allow_list = cfg.get("allow_list", True)
        self.usage = bool(cfg.get("usage"))
        self.conns = {}
        self.subs = {}          # (app, mid) -> [cid]
        self.mb_inc = {}        # (app, mid) -> record of the live incarnation
        self.np_inc = {}        # (app, name) -> record of the live incarnation
        self.np_ids = {}        # mailbox id -> (app, name, n) that it was created for
        self.inc_n = 0
        self.viol = []
        self.probes = Counter()
        self.transitions = set()
        self.shapes = set()
        self.last_expire = {}   # incarnation -> monotonic time of last sweep
        self.inc_start = {}
        self.stopped = False    # a known finding polluted the run
        self.welcome = None
        self.started_wall = None
        self.quiesced_at = None
        self.epoch = 0          # bumps at every sweep / restart (C02 non-triviality)
        self.backward_jump = False
        self.retired_np = {}    # (app, name) -> mailbox of a nameplate retired by the close of its mailbox
        self.lost_np = {}       # (app, name) -> mailbox of a nameplate a sweep removed against the rules
        if initial is not None:
            self._seed(initial)

    # ------------------------------------------------------------- plumbing
    def v(self, prop, clause, ev, text, sig=None):
        self.viol.append({"prop": prop, "clause": clause, "event": ev.idx, "step": ev.step,
                          "text": text, "sig": sig})

    def _seed(self, chan):
        for m in chan.mailboxes:
            self._new_mb((m.app, m.id), None, seed=m)
        for n in chan.nameplates:
            self._new_np((n.app, n.name), n.mailbox, None, seed=n)

    def _new_mb(self, k, ev, seed=None):
        self.inc_n += 1
        rec = {"n": self.inc_n, "adds": [], "admitted": [], "attempted": [], "reopened": set(), "closed_sides": set(),
               "act": None, "any": None, "sub_left": None, "seeded": seed is not None}
        if seed is not None:
            rec["adds"] = [tuple(x[:4]) for x in seed.msgs]
            rec["admitted"] = spec.first_two([[s.side] for s in seed.sides])
            rec["attempted"] = [s.side for s in seed.sides]
            rec["act"] = rec["any"] = seed.updated
        self.mb_inc[k] = rec
        return rec

    def _new_np(self, k, mailbox, ev, seed=None):
        self.inc_n += 1
        rec = {"n": self.inc_n, "mailbox": mailbox, "told": set(), "admitted": [], "attempted": []}
        if seed is not None:
            rec["admitted"] = spec.first_two([[s.side] for s in seed.sides])
            rec["attempted"] = [s.side for s in seed.sides]
        prev = self.np_ids.get(mailbox)
        if prev is not None and prev != (k[0], k[1], rec["n"]) and ev is not None:
            self.v("C03", "fresh-mailbox-per-incarnation", ev,
                   "nameplate %r incarnation got mailbox id %r already used for %r" % (k, mailbox, prev))
        self.np_ids[mailbox] = (k[0], k[1], rec["n"])
        self.np_inc[k] = rec
        return rec

    def sub_count(self):
        return sum(len(v) for v in self.subs.values())

    def _unsubscribe(self, cid, wall):
        for k, lst in list(self.subs.items()):
            if cid in lst:
                lst.remove(cid)
                rec = self.mb_inc.get(k)
                if rec is not None:
                    rec["sub_left"] = wall
                if not lst:
                    del self.subs[k]

    def _conn_dead(self, cid, wall):
        cm = self.conns.get(cid)
        if cm is not None:
            cm.alive = False
        self._unsubscribe(cid, wall)

    def _track_incarnations(self, pre, post, ev):
        """observe rows appearing / disappearing"""
        pre_m = {(m.app, m.id) for m in pre.mailboxes}
        post_m = {(m.app, m.id) for m in post.mailboxes}
        for k in pre_m - post_m:
            self.mb_inc.pop(k, None)
            for cid in self.subs.pop(k, []):
                cm = self.conns.get(cid)
                if cm is not None and cm.held:
                    cm.stale = True
            # handles of connections that closed already are gone; others that
            # hold the id through `named` but never subscribed are unaffected
        for k in post_m - pre_m:
            self._new_mb(k, ev)["act"] = ev.wall
            self.mb_inc[k]["any"] = ev.wall
            self.mb_inc[k]["act_t"] = ev.t
        pre_n = {(n.app, n.name): n.mailbox for n in pre.nameplates}
        post_n = {(n.app, n.name): n.mailbox for n in post.nameplates}
        for k in list(pre_n):
            if k not in post_n or post_n[k] != pre_n[k]:
                self.np_inc.pop(k, None)
        for k in post_n:
            if k not in pre_n or post_n[k] != pre_n[k]:
                self._new_np(k, post_n[k], ev)
        # duplicate rows are a violation by themselves
        seen = set()
        for n in post.nameplates:
            k = (n.app, n.name)
            if k in seen:
                self.v("C03", "duplicate-nameplate-rows", ev, "two nameplate rows for %r" % (k,))
            seen.add(k)

    def _on_died(self, ev):
        """the server process died in the middle of this command: nothing about the command is
        judged; the monitors take over what the files hold (the committed prefix of its effects)"""
        self.probes["crash_mid_command"] += 1
        for c in ev.c09:
            self.v("C09", "committed-before-frame", ev,
                   "frame %r to conn %s emitted while %s database had uncommitted changes (reader differs)"
                   % (c["frame"], c["conn"], c["db"]))
        pre, post = ev.pre, ev.post
        if pre is None or post is None:
            return
        if post.key() != pre.key():
            self.probes["crash_left_partial_effects"] += 1
        self._track_incarnations(pre, post, ev)
        cm = self.conns.get(ev.conn)
        msg = ev.msg if isinstance(ev.msg, dict) else {}
        # the side arrived as far as the rows say so (arrival order is the order of the rows)
        for m in post.mailboxes:
            k = (m.app, m.id)
            rec = self.mb_inc.get(k)
            m0 = pre.mb(*k)
            if rec is not None and m0 is None:
                # a record the interrupted command created: who is on it arrived
                sides = [r.side for r in m.sides]
                rec["attempted"] = list(sides)
                rec["admitted"] = sides[:2]
                continue
            if rec is None or m0 is None:
                continue
            had = set(r.side for r in m0.sides)
            for r in m.sides:
                if r.side not in had:
                    if r.side not in rec["attempted"]:
                        rec["attempted"].append(r.side)
                    if r.side not in rec["admitted"] and len(rec["admitted"]) < 2:
                        rec["admitted"].append(r.side)
            if m0.updated != m.updated or len(m.sides) != len(m0.sides) or len(m.msgs) != len(m0.msgs):
                self._touch(k, ev.wall, True)
            before = Counter(tuple(x[:4]) for x in m0.msgs)
            after = Counter(tuple(x[:4]) for x in m.msgs)
            for x in (after - before).elements():
                rec["adds"].append(x)
        for n in post.nameplates:
            k = (n.app, n.name)
            rec = self.np_inc.get(k)
            n0 = pre.np(*k)
            if rec is not None and (n0 is None or n0.mailbox != n.mailbox):
                sides = [r.side for r in n.sides]
                rec["attempted"] = list(sides)
                rec["admitted"] = sides[:2]
                continue
            if rec is None or n0 is None or n0.mailbox != n.mailbox:
                continue
            had = set(r.side for r in n0.sides)
            for r in n.sides:
                if r.side not in had:
                    if r.side not in rec["attempted"]:
                        rec["attempted"].append(r.side)
                    if r.side not in rec["admitted"] and len(rec["admitted"]) < 2:
                        rec["admitted"].append(r.side)
        if cm is not None and cm.bound and msg.get("type") in ("claim", "open", "close", "allocate"):
            # an attempt is an attempt even if no row tells of it
            app, side = cm.app, cm.side
            if msg["type"] == "claim" and isinstance(msg.get("nameplate"), str):
                n = post.np(app, msg["nameplate"])
                self._attempt((app, n.mailbox) if n is not None else None, (app, msg["nameplate"]), side)
            elif msg["type"] in ("open", "close"):
                mid = msg.get("mailbox", cm.named)
                if isinstance(mid, str):
                    self._attempt((app, mid), None, side)
        if ev.conn is not None:
            self._conn_dead(ev.conn, ev.wall)

    # ------------------------------------------------------- universal checks
    def _universal(self, ev):
        for (c, f) in ev.frames:
            if not isinstance(f, dict) or not isinstance(f.get("type"), str):
                self.v("C17", "frame-has-type", ev, "frame without type on conn %s: %r" % (c, f))
                continue
            tx = f.get("server_tx")
            if isinstance(tx, bool) or not isinstance(tx, (int, float)):
                self.v("C17", "frame-has-server_tx", ev, "frame %s without numeric server_tx" % f["type"])
            elif ev.wall is not None and abs(tx - ev.wall) > EPS:
                self.v("C17", "server_tx-is-send-time", ev,
                       "server_tx %r differs from the clock %r" % (tx, ev.wall))
        for e in ev.errors:
            k = e.get("kind")
            if k == "internal_error":
                sig = None
                if self._out_of_domain(ev):
                    # a non-string identifier: dropping the connection is acceptable
                    self.probes["zone:out-of-domain-bind-dropped"] += 1
                    if e.get("conn") is not None:
                        self._conn_dead(e["conn"], ev.wall)
                    continue
                self.probes["internal_errors"] += 1
                self.v("C17", "no-internal-failure", ev,
                       "handler raised %s: %s at %s" % (e.get("type"), e.get("text"), e.get("where")), sig)
                if e.get("conn") is not None:
                    self._conn_dead(e["conn"], ev.wall)
            elif k == "server_drop":
                if not e.get("expected"):
                    self.v("C17", "connection-not-dropped", ev, "server dropped connection %s" % e.get("conn"))
                self._conn_dead(e["conn"], ev.wall)
                self.probes["server_drops"] += 1
            elif k in ("harness_error", "harness_parse_error", "handshake_failed"):
                raise RuntimeError("harness error in event %d: %r" % (ev.idx, e))
        for c in ev.c09:
            self.v("C09", "committed-before-frame", ev,
                   "frame %r to conn %s emitted while %s database had uncommitted changes (reader differs)"
                   % (c["frame"], c["conn"], c["db"]))

    @staticmethod
    def _out_of_domain(ev):
        msgs = ev.sends if ev.sends is not None else ([ev.msg] if ev.msg is not None else [])
        for m in msgs:
            if isinstance(m, dict) and m.get("type") == "bind" and "appid" in m and "side" in m and \
                    (not isinstance(m["appid"], str) or not isinstance(m["side"], str)):
                return True
        return False

    def _messages_monotonic(self, pre, post, ev, allowed_add=None):
        """C01 storage clause: message rows change only by an accepted add or
        with their mailbox."""
        post_by = {(m.app, m.id): m for m in post.mailboxes}
        for m in pre.mailboxes:
            k = (m.app, m.id)
            pm = post_by.get(k)
            if pm is None:
                left = [o for o in post.orphan_msgs if o[0] == m.app and o[1] == m.id]
                was = [o for o in pre.orphan_msgs if o[0] == m.app and o[1] == m.id]
                if len(left) > len(was):
                    self.v("C01", "messages-deleted-with-mailbox", ev,
                           "message rows outlive mailbox %r" % (k,))
                    self.v("C13", "messages-deleted-with-mailbox", ev,
                           "message rows outlive mailbox %r" % (k,))
                continue
            a = Counter(json.dumps(x[:4]) for x in m.msgs)
            b = Counter(json.dumps(x[:4]) for x in pm.msgs)
            if a != b:
                if allowed_add is not None and allowed_add[0] == k:
                    a[json.dumps(list(allowed_add[1]))] += 1
                    if a == b:
                        continue
                self.v("C01", "message-rows-stable", ev,
                       "message rows of %r changed: %s -> %s" % (k, sorted(a.elements()), sorted(b.elements())))

    # ---------------------------------------------------------------- events
    def feed(self, ev):
        if self.stopped:
            return
        n0 = len(self.viol)
        kind = ev.kind
        self.cur_t = ev.t
        if ev.notes.get("died_at"):
            self._on_died(ev)
            return
        self._universal(ev)
        if ev.post is not None:
            self.shapes.add(ev.post.shape())
        if kind in ("start", "restart"):
            self._on_start(ev)
        elif kind in ("stop", "kill"):
            for cid in list(self.conns):
                self._conn_dead(cid, ev.wall)
            self.subs = {}
            for cm in self.conns.values():
                cm.held = False
        elif kind == "connect":
            self._on_connect(ev)
        elif kind in ("send", "batch"):
            if not ev.notes.get("noop"):
                self._on_send(ev)
        elif kind == "drop":
            self._on_drop(ev)
        elif kind == "timer":
            if ev.notes.get("sweep"):
                self._on_sweep(ev, ev.wall)
            else:
                self._quiet_event(ev, "timer")
        elif kind == "bulk":
            for e in ev.errors:
                if e.get("kind") == "internal_error":
                    self.v("C04", "claims-complete", ev, "claiming a free nameplate failed internally: %s %s at %s"
                           % (e.get("type"), e.get("text"), e.get("where")))
            self._track_incarnations(ev.pre, ev.post, ev)
            # the filler side joined whatever already had one of the names: that is a claim like
            # any other for the monitors (activity stamp, arrival order of sides)
            side, app = ev.notes.get("bulk_side"), ev.notes.get("bulk_app")
            if ev.pre is not None and ev.post is not None and side is not None:
                self.cur_t = ev.t
                for n in ev.post.nameplates:
                    was = ev.pre.np(app, n.name) if n.app == app else None
                    if was is None:
                        continue          # (a new nameplate: seeded by _track_incarnations)
                    in_pre = any(r.side == side for r in was.sides)
                    in_post = any(r.side == side for r in n.sides)
                    m0, m1 = ev.pre.mb(app, n.mailbox), ev.post.mb(app, n.mailbox)
                    stamped = m0 is not None and m1 is not None and m0.updated != m1.updated
                    if not ((in_post and not in_pre) or (in_post and stamped)):
                        continue          # the filler did not touch this one
                    self._attempt((app, n.mailbox), (app, n.name), side)
                    joined = m1 is not None and any(r.side == side for r in m1.sides)
                    for rec in (self.np_inc.get((app, n.name)), self.mb_inc.get((app, n.mailbox))):
                        if rec is not None and joined and side not in rec["admitted"] and len(rec["admitted"]) < 2:
                            rec["admitted"].append(side)
                    self._touch((app, n.mailbox), ev.wall, True)
        elif kind == "clock_jump":
            if (ev.notes.get("delta") or 0) < 0:
                self.backward_jump = True
        return self.viol[n0:]

    def _quiet_event(self, ev, what):
        """events that must neither change stored state nor emit data frames"""
        if ev.frames:
            for (c, f) in ev.frames:
                if isinstance(f, dict) and f.get("type") == "message":
                    self.v("C02", "no-message-outside-add", ev, "message frame to conn %s during %s" % (c, what))
        if ev.pre is not ev.post and ev.pre.key() != ev.post.key():
            self._messages_monotonic(ev.pre, ev.post, ev)
            self._track_incarnations(ev.pre, ev.post, ev)

    def _on_start(self, ev):
        for cid in list(self.conns):
            self._conn_dead(cid, ev.wall)
        self.subs = {}
        self.epoch += 1
        for e in ev.errors:
            if e.get("kind") == "start_failed":
                self.v("C10", "restart-succeeds", ev, "server failed to start: %s %s at %s"
                       % (e.get("type"), e.get("text"), e.get("where")))
                self.v("C11", "restart-succeeds", ev, "server failed to start: %s %s" % (e.get("type"), e.get("text")))
                self.stopped = True
                return
        for name, p in (ev.notes.get("pragmas") or {}).items():
            if p.get("journal_mode") not in ("delete",) or p.get("synchronous") != 2:
                self.v("C09", "durable-connection-settings", ev,
                       "%s database opened with %r" % (name, p))
        self.started_wall = ev.wall
        self.inc_start[ev.inc] = ev.t
        self.last_expire[ev.inc] = None
        self._on_sweep(ev, ev.wall, at_start=True)

    def _on_connect(self, ev):
        cm = ConnModel(ev.conn, ev.inc)
        self.conns[ev.conn] = cm
        fr = ev.frames_for(ev.conn)
        if any(e.get("kind") == "internal_error" for e in ev.errors):
            return
        if len(fr) != 1 or fr[0].get("type") != "welcome":
            self.v("C17", "welcome-first", ev, "first frames on a new connection: %r" % (fr,))
        elif self.welcome is not None and fr[0].get("welcome") != self.welcome:
            self.v("C17", "welcome-notices", ev,
                   "welcome %r, configured %r" % (fr[0].get("welcome"), self.welcome))
        if len(ev.frames) != len(fr):
            self.v("C17", "welcome-first", ev, "a connect emitted frames on other connections")
        self._quiet_state(ev, "C17", "connect")

    def _quiet_state(self, ev, prop, what):
        if ev.pre is not ev.post and ev.pre.key() != ev.post.key():
            self.v(prop, "state-unchanged", ev, "%s changed the channel database" % what)
            self._track_incarnations(ev.pre, ev.post, ev)

    def _on_drop(self, ev):
        how = ev.notes.get("how")
        cm = self.conns.get(ev.conn)
        if ev.notes.get("noop") or cm is None:
            return
        if how == "closing":
            # the close handshake is done: nothing more can be delivered to the connection, but
            # until its connectionLost arrives the server rightly counts it as a subscriber
            # (sweeps keep its mailbox, the status row counts it)
            cm.lingering = True
        elif how in ("abrupt", "clean", "finish"):
            self._conn_dead(ev.conn, ev.wall)
        elif how == "stall":
            cm.stalled = True
        elif how == "unstall":
            cm.stalled = False
        self._quiet_event(ev, "disconnect")

    def _on_send(self, ev):
        cm = self.conns.get(ev.conn)
        if cm is None:
            return
        msgs = ev.sends if ev.sends is not None else [ev.msg]
        if len(msgs) == 1:
            subs = [Sub(ev, msgs[0], ev.pre, ev.post, ev.upre, ev.upost, ev.frames)]
        else:
            subs = []
            mids = ev.mids
            for k, m in enumerate(msgs):
                if k >= len(mids):
                    break
                start = mids[k][0]
                if k + 1 < len(mids):
                    end = mids[k + 1][0]
                    post, upost = mids[k + 1][1], mids[k + 1][2]
                else:
                    end = len(ev.frames)
                    post, upost = ev.post, ev.upost
                subs.append(Sub(ev, m, mids[k][1], post, mids[k][2], upost, ev.frames[start:end], k))
            died = any(e.get("kind") in ("internal_error", "server_drop") for e in ev.errors)
            if len(subs) < len(msgs) and not died:
                self.v("C17", "ack-first", ev, "batch of %d commands got %d acks" % (len(msgs), len(subs)))
        failed = [e for e in ev.errors if e.get("kind") == "internal_error" and e.get("conn") == ev.conn]
        if failed and self._out_of_domain(ev):
            return
        dropped = [e for e in ev.errors if e.get("kind") == "server_drop" and e.get("conn") == ev.conn
                   and not e.get("expected")]
        if dropped and not failed:
            # the server hung up on a well-formed command: the property that owns the
            # (last) command is broken as well as C17
            last = msgs[-1] if msgs else {}
            owner = {"close": "C08", "release": "C07", "claim": "C07", "allocate": "C04", "open": "C01",
                     "add": "C02"}.get(last.get("type") if isinstance(last, dict) else None)
            if owner:
                self.v(owner, "command-completes", ev, "the server dropped the connection instead of answering %s"
                       % (last.get("type"),))
        if not failed:
            self._acknowledged_effects_stored(ev, subs, msgs)
        for i, sub in enumerate(subs):
            if self.stopped:
                return
            last = (i == len(subs) - 1)
            err = failed[0] if (failed and last) else None
            if not cm.alive and not failed:
                break
            self.command(cm, sub, err)
            # what "my nameplate" / "my mailbox" mean on this connection from now on
            ev.notes["cm"] = [cm.np, cm.named]

    def _acknowledged_effects_stored(self, ev, subs, msgs):
        """C09: when a non-ack frame goes out, what an independent reader finds
        stored is already what the command leaves behind (nothing is written
        after the answer), so a crash right after the frame loses nothing"""
        base = 0
        for sub in subs:
            post_c = sub.post.key()
            post_u = sub.upost.key() if sub.upost is not None else None
            pre_c = sub.pre.key()
            pre_u = sub.upre.key() if sub.upre is not None else None
            # index of this sub's first frame within the event
            start = 0
            if len(subs) > 1:
                start = ev.mids[sub.k][0] if sub.k < len(ev.mids) else 0
            for j, (c, f) in enumerate(sub.frames):
                idx = start + j
                if idx not in ev.fstates:
                    continue
                st = ev.fstates[idx]
                got_c, got_u = (pre_c, pre_u) if st is None else st
                # for a batch the "pre" marker refers to the event's pre-state
                if st is None and len(subs) > 1:
                    got_c, got_u = ev.pre.key(), (ev.upre.key() if ev.upre is not None else None)
                if got_c != post_c or (post_u is not None and got_u is not None and got_u != post_u):
                    self.v("C09", "acknowledged-effects-stored", ev,
                           "frame %r to conn %s went out before the effects of %r were stored: a second reader "
                           "saw %s, the command left %s" % (f.get("type"), c, sub.msg.get("type"), got_c, post_c))
                    return

    # ---------------------------------------------------------------- sweeps
    def _on_sweep(self, ev, now, at_start=False):
        pre, post = ev.pre, ev.post
        self.probes["sweeps"] += 1
        self.epoch += 1
        injected = bool(ev.notes.get("db_faults"))
        raised = [e for e in ev.errors if e.get("kind") in ("logged_error", "internal_error")]
        if not at_start:
            last = self.last_expire.get(ev.inc)
            ref = last if last is not None else self.inc_start.get(ev.inc)
            if ref is not None and (ev.t - ref) > PERIOD + 1e-3:
                self.v("C13", "sweep-every-period", ev, "sweep at t=%.3f, previous at t=%.3f" % (ev.t, ref))
            if ev.notes.get("loop_alive") is False:
                self.v("C13", "sweep-loop-survives", ev, "the periodic sweep is no longer scheduled"
                       + (" after: %s" % raised[0].get("text") if raised else ""))
        self.last_expire[ev.inc] = ev.t
        if raised and not injected:
            self.probes["sweep_raised"] += 1
            e = raised[0]
            self.v("C10", "sweep-without-internal-error", ev,
                   "sweep raised %s: %s at %s" % (e.get("type"), e.get("text"), e.get("where")))
        for (c, f) in ev.frames:
            if isinstance(f, dict) and f.get("type") == "message":
                self.v("C02", "no-message-outside-add", ev, "message frame during a sweep")
        post_m = {(m.app, m.id): m for m in post.mailboxes}
        pre_np_by_mb = {}
        for n in pre.nameplates:
            pre_np_by_mb.setdefault((n.app, n.mailbox), []).append(n)
        post_np = {(n.app, n.name): n for n in post.nameplates}
        deleted_any = kept_with_msgs = False
        for m in pre.mailboxes:
            k = (m.app, m.id)
            rec = self.mb_inc.get(k) or {}
            subscribed = bool(self.subs.get(k))
            act = rec.get("act")
            if act is None:
                act = m.updated
            anyt = max([x for x in (rec.get("any"), rec.get("sub_left"), act) if x is not None] or [m.updated])
            pm = post_m.get(k)
            if pm is None:
                deleted_any = True
                self.probes["sweep_deleted_mailbox"] += 1
                if subscribed:
                    self.v("C12", "subscribed-mailbox-survives", ev,
                           "sweep deleted mailbox %r while connections %r are subscribed" % (k, self.subs.get(k)))
                    if rec.get("closed_sides"):
                        self.v("C08", "close-keeps-other-access", ev,
                               "after side(s) %r closed mailbox %r it was swept although conn(s) %r of a side that has not "
                               "closed are still subscribed" % (sorted(rec["closed_sides"], key=repr), k, self.subs.get(k)))
                elif (act is not None and act > now - EXPIRY + EPS and act <= now + EPS
                      and (rec.get("act_t") is None or ev.t - rec["act_t"] < EXPIRY - EPS)
                      and not self.backward_jump):
                    # (after a backward step of the wall clock a sweep may legitimately have
                    # re-stamped a subscribed mailbox with an *earlier* time)
                    # (recent on the wall clock the server stamps with *and* in elapsed time:
                    # a wall-clock jump must not turn a legitimate expiry into an alarm)
                    self.v("C12", "active-mailbox-survives", ev,
                           "sweep at %.3f deleted mailbox %r whose last activity was at %.3f (%.3f s earlier)"
                           % (now, k, act, now - act))
                elif (rec.get("sub_sweep") is not None and not self.backward_jump
                      and 0 <= now - rec["sub_sweep"][0] < EXPIRY - EPS and ev.t - rec["sub_sweep"][1] < EXPIRY - EPS):
                    # a client was subscribed when an earlier sweep ran: that sweep keeps the channel
                    # alive, so its client may be away for the expiration time minus one period
                    self.v("C12", "recently-subscribed-mailbox-survives", ev,
                           "sweep at %.3f deleted mailbox %r although a client was subscribed to it at the sweep "
                           "%.3f s earlier" % (now, k, now - rec["sub_sweep"][0]))
                if self.viol and self.viol[-1]["prop"] == "C12" and self.viol[-1]["event"] == ev.idx:
                    # removed although it was alive by the rules: as far as C03 is concerned the
                    # nameplate still lives and still leads to this mailbox
                    for n in pre_np_by_mb.get(k, []):
                        self.lost_np[(n.app, n.name)] = n.mailbox
                        if any(r.flag for r in n.sides):
                            # C07: a claim is ended by release, expiry or the mailbox's deletion by its
                            # sides - this was none of them
                            self.v("C07", "claim-ended-by-nothing-else", ev,
                                   "nameplate %r (claimed by %r) was removed by the sweep at %.3f although its channel "
                                   "had not expired: %s" % (n.name, [r.side for r in n.sides if r.flag], now,
                                                            self.viol[-1]["text"][:160]))
                for n in pre_np_by_mb.get(k, []):
                    if (n.app, n.name) in post_np and post_np[(n.app, n.name)].mailbox == m.id:
                        self.v("C13", "swept-completely", ev, "nameplate %r survives its swept mailbox" % n.name)
            else:
                if subscribed and (now - (act or now)) > EXPIRY:
                    self.probes["sweep_old_subscriber_kept"] += 1
                if subscribed and not raised and k in self.mb_inc:
                    self.mb_inc[k]["sub_sweep"] = (now, ev.t)
                if m.msgs:
                    kept_with_msgs = True
                if (pm.updated is not None and m.updated is not None and pm.updated < m.updated - EPS
                        and not self.backward_jump):
                    self.v("C12", "activity-stamp-not-moved-back", ev,
                           "sweep at %.3f moved the activity stamp of mailbox %r back from %.3f to %.3f"
                           % (now, k, m.updated, pm.updated))
                if ([s.canon() for s in m.sides] != [s.canon() for s in pm.sides]
                        or sorted(map(json.dumps, m.msgs)) != sorted(map(json.dumps, pm.msgs))
                        or m.for_nameplate != pm.for_nameplate):
                    self.v("C12", "survivor-untouched", ev, "sweep changed surviving mailbox %r" % (k,))
                for n in pre_np_by_mb.get(k, []):
                    pn = post_np.get((n.app, n.name))
                    if pn is None or pn.canon() != n.canon():
                        self.v("C12", "survivor-untouched", ev,
                               "sweep removed/changed nameplate %r of surviving mailbox %r" % (n.name, k))
                if (not subscribed and not injected and anyt < now - EXPIRY - EPS):
                    self.v("C13", "idle-mailbox-swept", ev,
                           "mailbox %r idle since %.3f (%.3f s) and unsubscribed survived the sweep at %.3f"
                           % (k, anyt, now - anyt, now))
        if deleted_any and kept_with_msgs:
            self.probes["sweep_delete_one_keep_other"] += 1
        pre_m = {(m.app, m.id) for m in pre.mailboxes}
        for k in post_m:
            if k not in pre_m:
                self.v("C12", "survivor-untouched", ev, "sweep created mailbox %r" % (k,))
        if sorted(map(json.dumps, pre.orphan_msgs)) != sorted(map(json.dumps, post.orphan_msgs)):
            if len(post.orphan_msgs) > len(pre.orphan_msgs):
                self.v("C13", "swept-completely", ev, "sweep left message rows without mailbox")
        if post.orphan_mb_sides or post.orphan_np_sides:
            self.v("C13", "swept-completely", ev, "sweep left side rows without owner: %r %r"
                   % (post.orphan_mb_sides, post.orphan_np_sides))
        self._messages_monotonic(pre, post, ev)
        # usage
        self._usage_check(ev, pre, post, ev.upre, ev.upost, now, pruned=True, transient=False)
        if self.usage and ev.upost is not None and not (raised and not injected and False):
            cur = ev.upost.current
            want = self.sub_count()
            dump_failed = any("dump_stats" in str(e.get("where")) for e in raised)
            if not dump_failed:
                if len(cur) != 1:
                    self.v("C15", "status-row", ev, "usage `current` has %d rows" % len(cur))
                else:
                    reb, upd, bl, cw = cur[0]
                    if cw != want:
                        self.v("C15", "status-row", ev,
                               "status row reports %r subscribed connections, %d are subscribed" % (cw, want))
                    if upd is None or abs(upd - now) > EPS:
                        self.v("C15", "status-row", ev, "status row updated=%r, sweep at %r" % (upd, now))
        self._track_incarnations(pre, post, ev)

    # ----------------------------------------------------------------- usage
    def _usage_check(self, ev, pre, post, upre, upost, when, pruned, transient, issuer_app=None,
                     closing=None):
        """C15 / C16 on the usage delta of one (sub)event; retirements are the
        rows observed to disappear."""
        if not self.usage or upost is None:
            return
        new_np, new_mb, new_cv = upost.new_since(upre)
        exp_np, exp_mb = [], []
        zone = False
        post_n = {(n.app, n.name): n.mailbox for n in post.nameplates}
        for n in pre.nameplates:
            if post_n.get((n.app, n.name)) != n.mailbox:
                u = spec.np_usage([[s.side, s.flag, s.added] for s in n.sides], when, pruned, self.blur)
                if u is None:
                    zone = True
                else:
                    exp_np.append((n.app, u, min(s.added for s in n.sides)))
        post_m = {(m.app, m.id) for m in post.mailboxes}
        for m in pre.mailboxes:
            if (m.app, m.id) not in post_m:
                rows = [[s.side, s.flag, s.added, s.mood] for s in m.sides]
                if closing is not None and closing[:2] == (m.app, m.id):
                    # the mood reported by the close that retires the mailbox
                    for r in rows:
                        if r[0] == closing[2]:
                            r[3] = closing[3]
                u = spec.mb_usage(rows, when, pruned, self.blur)
                if u is None:
                    zone = True
                else:
                    exp_mb.append((m.app, m.for_nameplate, u, min(s.added for s in m.sides)))
        if exp_np or exp_mb:
            self.probes["retirements"] += len(exp_np) + len(exp_mb)
        got_np = Counter(json.dumps(spec.norm([r[1], r[2], r[3], r[4], r[5]])) for r in new_np)
        want_np = Counter(json.dumps(spec.norm([a, u[0], u[1], u[2], u[3]])) for (a, u, _) in exp_np)
        got_mb = Counter(json.dumps(spec.norm([r[1], bool(r[2]) if r[2] is not None else None, r[3], r[5], r[4], r[6]]))
                         for r in new_mb)
        want_mb = Counter(json.dumps(spec.norm([a, f, u[0], u[1], u[2], u[3]])) for (a, f, u, _) in exp_mb)
        if not zone:
            if got_np != want_np:
                self.v("C15", "one-record-per-retired-nameplate", ev,
                       "usage nameplates rows written %s, retirements demand %s"
                       % (sorted(got_np.elements()), sorted(want_np.elements())))
            if got_mb != want_mb:
                ok = False
                if transient:
                    extra = got_mb - want_mb
                    if not (want_mb - got_mb) and sum(extra.values()) <= 1:
                        ok = True
                        # the one extra record must belong to the issuer's app
                        for e in extra:
                            if issuer_app is not None and json.loads(e)[0] != issuer_app:
                                ok = False
                if not ok:
                    self.v("C15", "one-record-per-retired-mailbox", ev,
                           "usage mailboxes rows written %s, retirements demand %s"
                           % (sorted(got_mb.elements()), sorted(want_mb.elements())))
        # C16: rounding of whatever was written
        if self.blur:
            b = self.blur
            # which record belongs to which retirement is C15's business: here a row
            # is fine if it is the rounding of the start of *some* object retired now
            for r in new_np:
                self._blur_row(ev, "nameplates.started", r[2], [t for (a, u, t) in exp_np], b)
            for r in new_mb:
                trues = [t for (a, f, u, t) in exp_mb]
                if transient and not trues:
                    trues = [when]
                self._blur_row(ev, "mailboxes.started", r[3], trues, b)
            for r in new_cv:
                self._blur_row(ev, "client_versions.connect_time", r[3], [when], b)

    def _blur_row(self, ev, what, value, trues, b):
        self.probes["blur_rows"] += 1
        if value is None or isinstance(value, str) or (value % b) != 0:
            self.v("C16", "rounded-to-interval", ev, "%s=%r is not a multiple of %r" % (what, value, b))
            return
        if trues and not any(0 <= t - value < b for t in trues):
            self.v("C16", "less-than-one-interval-early", ev,
                   "%s=%r, true time(s) %r, interval %r" % (what, value, trues, b))

    # ------------------------------------------------------------ end of run
    def finish(self, world, quiesced=False):
        if self.stopped:
            return []
        n0 = len(self.viol)
        if quiesced and world.history:
            ev = world.history[-1]
            if not ev.post.is_empty():
                self.v("C13", "store-returns-to-empty", ev,
                       "after all clients left and %d s passed the channel database still holds %r"
                       % (EXPIRY + 2 * PERIOD, ev.post.counts()))
        return self.viol[n0:]
