"""World: one incarnation chain of the real server on one directory, on a
virtual clock, over in-memory transports (DESIGN.md section 4.1-4.4)."""
import os
import sys
import json
import shutil
import hashlib
import sqlite3
import traceback

from . import seams
from .seams import srv, server_tap
from . import wsframes as wf
from . import alpha

from twisted.internet.testing import MemoryReactorClock
from twisted.internet.task import LoopingCall
from twisted.internet.address import IPv4Address
from twisted.internet.error import ConnectionLost, ConnectionDone
from twisted.python.failure import Failure
from twisted.python import log as txlog
from twisted.application.internet import TimerService
from twisted.test import iosim

WALL_BASE = 1700000000.0
DATA_TYPES = ("allocated", "claimed", "released", "closed", "message")


def scratch_root():
    d = os.environ.get("MWSIM_SCRATCH")
    if d:
        os.makedirs(d, exist_ok=True)
        return d
    for base in ("/dev/shm", os.environ.get("TMPDIR") or "/tmp"):
        if os.path.isdir(base) and os.access(base, os.W_OK):
            d = os.path.join(base, "mwsim-%d" % os.getpid())
            os.makedirs(d, exist_ok=True)
            os.environ["MWSIM_SCRATCH"] = d
            return d
    raise RuntimeError("no scratch directory")


def repo_frame(tb):
    """innermost traceback frame that lies in the code under test"""
    best = None
    for fs in traceback.extract_tb(tb):
        if "wormhole_mailbox_server" in fs.filename:
            best = "%s:%s:%s" % (os.path.basename(fs.filename), fs.lineno, fs.name)
    return best


class Event(object):
    __slots__ = ("idx", "kind", "step", "conn", "msg", "t", "wall", "frames", "errors",
                 "pre", "post", "upre", "upost", "notes", "c09", "dbcalls", "inc", "sends", "mids", "fstates", "_fs_calls")

    def __init__(self, idx, kind, step, conn, msg, t, wall, inc):
        self.idx = idx
        self.kind = kind
        self.step = step
        self.conn = conn
        self.msg = msg
        self.t = t
        self.wall = wall
        self.inc = inc
        self.frames = []      # (conn id, frame dict) in emission order
        self.errors = []      # dicts: kind internal_error | logged_error | server_drop
        self.pre = self.post = None
        self.upre = self.upost = None
        self.notes = {}
        self.c09 = []
        self.dbcalls = 0
        self.sends = None     # for batches: list of msgs
        self.mids = []        # for batches: (frame index, chan, usage) at every ack
        self.fstates = {}     # frame index -> (channel key, usage key) as an independent reader sees them
        self._fs_calls = -1

    def frames_for(self, cid):
        return [f for (c, f) in self.frames if c == cid]

    def brief(self):
        d = {"i": self.idx, "kind": self.kind, "t": round(self.t, 3)}
        if self.conn is not None:
            d["conn"] = self.conn
        if self.msg is not None:
            d["msg"] = self.msg
        if self.sends is not None:
            d["sends"] = self.sends
        if self.notes:
            d["notes"] = self.notes
        d["frames"] = [[c, {k: v for k, v in f.items() if k != "server_tx"}] for c, f in self.frames]
        if self.errors:
            d["errors"] = self.errors
        return d


class SimTransport(iosim.FakeTransport):
    def __init__(self, protocol, conn, world):
        iosim.FakeTransport.__init__(
            self, protocol, True,
            hostAddress=IPv4Address("TCP", "10.0.0.1", 4000),
            peerAddress=IPv4Address("TCP", "10.0.1.%d" % (conn.id % 250 + 1), 40000 + conn.id))
        self.conn = conn
        self.world = world
        self.aborted = False

    def write(self, data):
        if self.disconnecting:
            return
        self.world.on_server_write(self.conn, data)

    def writeSequence(self, iovec):
        self.write(b"".join(iovec))

    def loseConnection(self):
        self.disconnecting = True

    def abortConnection(self):
        self.disconnecting = True
        self.aborted = True


class SimConn(object):
    def __init__(self, cid, world):
        self.id = cid
        self.world = world
        self.inc = world.inc
        self.parser = wf.ServerStreamParser()
        self.alive = True
        self.stalled = False
        self.closing = False      # client-initiated clean close in progress
        self.lingering = False    # ... whose connectionLost has not been delivered yet
        self.handshaken = False
        self.replies = []         # client control frames to deliver (pong/close)
        self.missed_pings = []
        self.held = b""           # client->server bytes queued but not yet delivered
        self.held_msgs = []       # commands in flight: delivered together with the next send
        self.frames = []          # all data frames emitted by the server to this conn
        self.last = {}            # last value told per frame type (claimed/allocated)
        self.st = None
        self.mask_rng = seams.make_rng(world.seed, "mask%d" % cid)

    def mask(self):
        return self.mask_rng.getrandbits(32).to_bytes(4, "big")


class World(object):
    def __init__(self, seed, cfg, rng_modes=None, dirname=None, t0=0.0, name="w", rng_salt=""):
        self.seed = seed
        self.cfg = dict(cfg)
        self.rng_modes = dict(rng_modes or {})
        self.name = name
        self.root = scratch_root()
        if dirname is None:
            dirname = os.path.join(self.root, "%s-%s-%d-%d" % (name, seed, os.getpid(), id(self) & 0xffffff))
            shutil.rmtree(dirname, ignore_errors=True)
            os.makedirs(dirname)
            self.owns_dir = True
        else:
            self.owns_dir = True
        self.dir = dirname
        self.rng_choice = seams.make_rng(seed, "choice")
        self.rng_urandom = seams.make_rng(seed, "urandom" + rng_salt)
        self.death_at = None
        self.dead_now = False
        self.keyed_counter = 0
        self.collide_budget = 40
        self.wall_offset = WALL_BASE + float(self.cfg.get("wall_frac", 0.37))
        self.wall_jump = 0.0
        self.t_resume = t0
        self.reactor = None
        self.service = None
        self.site = None
        self.inc = 0                  # incarnation counter
        self.running = False
        self.conns = {}
        self.dbs = {}                 # name -> live SimConnection
        self.all_dbs = []
        self.readers = {}
        self.history = []
        self.cur = None
        self.counters = {}
        self.started_wall = None      # wall time of the current incarnation's start
        self.capture = False          # crash-image capture on?
        self.images = []              # (event idx, point no, label, path)
        self._image_hashes = {}
        self.fault = None             # armed db fault
        self.faults_fired = []
        self.frame_counter = 0
        self.point_no = 0
        self.check_c09 = True
        self.c09_full_every = 16
        self.stats_c09 = {"frames": 0, "data_frames": 0, "in_txn": 0, "full_compares": 0,
                          "nonempty_delta": 0}
        self._log_observer = None
        self.sweep_alive = True
        self.journal_modes = {}

    # ------------------------------------------------------------------ util
    def count(self, k, n=1):
        self.counters[k] = self.counters.get(k, 0) + n

    def wall(self):
        return self.wall_offset + self.reactor.seconds() + self.wall_jump

    def now(self):
        return self.reactor.seconds() if self.reactor is not None else self.t_resume

    def chan_path(self):
        return os.path.join(self.dir, "channel.sqlite")

    def usage_path(self):
        return os.path.join(self.dir, "usage.sqlite")

    def argv(self):
        c = self.cfg
        a = ["--port", "tcp:4000", "--channel-db", self.chan_path()]
        if c.get("usage"):
            a += ["--usage-db", self.usage_path()]
        if c.get("blur"):
            a += ["--blur-usage", str(int(c["blur"]))]
        if not c.get("allow_list", True):
            a += ["--disallow-list"]
        if c.get("advertise_version"):
            a += ["--advertise-version", c["advertise_version"]]
        if c.get("signal_error"):
            a += ["--signal-error", c["signal_error"]]
        if c.get("motd") is not None:
            a += ["--motd", c["motd"]]
        if not c.get("autoping", False):
            a += ["--websocket-protocol-option", "autoPingInterval=0"]
        if c.get("log_fd"):
            # --log-fd: a fresh descriptor for every incarnation (the server wraps and owns it)
            fd = os.open(os.path.join(self.dir, "requests.log"), os.O_WRONLY | os.O_CREAT | os.O_APPEND, 0o600)
            a += ["--log-fd", str(fd)]
        return a

    def expected_welcome(self):
        c = self.cfg
        w = {}
        if c.get("motd") is not None:
            w["motd"] = c["motd"]
        if c.get("advertise_version"):
            w["current_cli_version"] = c["advertise_version"]
        if c.get("signal_error"):
            w["error"] = c["signal_error"]
        return w

    def collide_candidates(self):
        # names currently in use with 4-6 digits (for the randrange adversary)
        try:
            st = self.snapshot_channel()
        except Exception:
            return []
        out = []
        for n in st.nameplates:
            if n.name.isdigit() and 4 <= len(n.name) <= 6 and n.name[0] != "0":
                out.append(int(n.name))
        return sorted(set(out))

    # --------------------------------------------------------------- logging
    def _observe(self, ev):
        if ev.get("isError"):
            f = ev.get("failure")
            if f is not None:
                where = None
                try:
                    where = repo_frame(f.getTracebackObject())
                except Exception:
                    pass
                rec = {"kind": "logged_error", "type": f.type.__name__ if f.type else "?",
                       "text": str(f.value)[:300], "where": where}
            else:
                rec = {"kind": "logged_error", "type": "log", "text": str(ev.get("message"))[:300],
                       "where": None}
            if self.cur is not None:
                self.cur.errors.append(rec)
            else:
                self.count("logged_errors_outside_events")

    # ---------------------------------------------------------------- events
    def begin(self, kind, step=None, conn=None, msg=None):
        assert self.cur is None, "nested event"
        ev = Event(len(self.history), kind, step, conn, msg, self.now(),
                   self.wall() if self.reactor is not None else None, self.inc)
        if self.history:
            last = self.history[-1]
            ev.pre, ev.upre = last.post, last.upost
        self.cur = ev
        self.point_no = 0
        return ev

    def end(self):
        ev = self.cur
        self.cur = None
        ev.notes.pop("_fs_last", None)
        if ev.pre is None or ev.dbcalls or ev.kind in ("start", "restart", "stop"):
            try:
                ev.post, ev.upost = self.snapshot()
            except sqlite3.OperationalError as e:
                if "locked" not in str(e) or ev.pre is None:
                    raise
                # the event is over and the server still holds the write lock of a transaction it
                # has not committed (large enough to have spilled its cache): a second reader is
                # locked out; it keeps seeing the last committed state
                ev.post, ev.upost = ev.pre, ev.upre
                ev.c09.append({"frame": "<end of event: second reader locked out>", "conn": ev.conn, "db": "a"})
                self.count("reader_locked_out")
            if ev.pre is None:
                ev.pre, ev.upre = ev.post, ev.upost
        else:
            ev.post, ev.upost = ev.pre, ev.upre
        if ev.wall is None and self.reactor is not None:
            ev.wall = self.wall()
        self.history.append(ev)
        return ev

    # -------------------------------------------------------------- snapshot
    def _reader(self, name):
        path = self.chan_path() if name == "channel" else self.usage_path()
        r = self.readers.get(name)
        if r is None:
            if not os.path.exists(path):
                return None
            r = sqlite3.connect(path)
            self.readers[name] = r
        return r

    def close_readers(self):
        for r in self.readers.values():
            try:
                r.close()
            except Exception:
                pass
        self.readers = {}

    def snapshot_channel(self):
        r = self._reader("channel")
        if r is None:
            return alpha.ChanState()
        return alpha.read_channel(r)

    def snapshot(self):
        try:
            chan = self.snapshot_channel()
            usage = None
            if self.cfg.get("usage"):
                r = self._reader("usage")
                if r is not None:
                    usage = alpha.read_usage(r)
        except sqlite3.OperationalError as e:
            last = getattr(self, "_last_snap", None)
            if "locked" not in str(e) or last is None:
                raise
            # the server holds the write lock of a transaction it has not committed (one that
            # spilled its page cache): a second reader is locked out and keeps seeing the last
            # committed state.  Between events or while a frame goes out that is what C09 forbids.
            self.count("reader_locked_out")
            ev = self.cur
            if ev is not None and not ev.notes.get("_locked_noted"):
                ev.notes["_locked_noted"] = True
                ev.c09.append({"frame": "<second reader locked out>", "conn": ev.conn, "db": "a"})
            return last
        self._last_snap = (chan, usage)
        return chan, usage

    # ------------------------------------------------------------- db seams
    def _dbname(self, dbfile):
        b = os.path.basename(str(dbfile))
        if b.startswith("channel"):
            return "channel"
        if b.startswith("usage"):
            return "usage"
        return b

    def db_connecting(self, dbfile):
        pass

    def db_connected(self, db, dbfile):
        name = self._dbname(dbfile)
        db._sim_world = self
        db._sim_name = name
        self.dbs[name] = db
        self.all_dbs.append(db)

    def db_closed(self, db):
        if self.dbs.get(db._sim_name) is db:
            del self.dbs[db._sim_name]

    def arm_death(self, k):
        """the server process dies right before the k-th database call of the next command"""
        self.death_at = k

    def db_point(self, db, op, sql):
        ev = self.cur
        if self.dead_now:
            raise seams.SimDeath()
        if ev is not None:
            ev.dbcalls += 1
        self.point_no += 1
        self.count("db_calls")
        if self.death_at is not None and ev is not None and ev.kind == "send" and db._sim_name == "channel":
            # (counted on the channel database only, so that the same step dies at the same place
            # whether or not a usage database is configured)
            ev.notes["_chan_calls"] = ev.notes.get("_chan_calls", 0) + 1
        if self.death_at is not None and ev is not None and ev.kind == "send" and db._sim_name == "channel" \
                and ev.notes.get("_chan_calls") == self.death_at:
            self.death_at = None
            self.dead_now = True
            self.count("fault_crash_mid_command")
            ev.notes["died_at"] = [ev.dbcalls, db._sim_name, op]
            raise seams.SimDeath()
        f = self.fault
        if f is not None and ev is not None:
            if f["when"](ev, db, op, sql, self.point_no):
                self.fault = None
                self.faults_fired.append({"event": ev.idx, "point": self.point_no, "db": db._sim_name,
                                          "op": op, "error": f["error"]})
                self.count("fault_db_error")
                ev.notes.setdefault("db_faults", []).append([self.point_no, db._sim_name, op, f["error"]])
                raise seams._real_sqlite3.OperationalError(f["error"])
        if self.capture and op == "commit" and db.in_transaction:
            # the instant before the commit: files hold the previous state plus a journal
            self.take_image("pre-commit:%s" % db._sim_name)

    def db_after(self, db, op, sql):
        if self.capture:
            # every database call is a crash point; images are de-duplicated by content, so
            # a call that left the files unchanged (inside a transaction) costs one hash only
            self.take_image("post-%s:%s" % (op, db._sim_name))

    # --------------------------------------------------------- crash images
    def _dir_hash(self):
        h = hashlib.sha256()
        for fn in sorted(os.listdir(self.dir)):
            p = os.path.join(self.dir, fn)
            if os.path.isfile(p):
                h.update(fn.encode())
                with open(p, "rb") as f:
                    h.update(f.read())
        return h.hexdigest()

    def take_image(self, label):
        hh = self._dir_hash()
        self.count("image_points")
        if hh in self._image_hashes:
            return None
        dst = os.path.join(self.root, "img-%s-%d-%d-%d" % (self.name, os.getpid(), id(self) & 0xffffff, len(self.images)))
        shutil.rmtree(dst, ignore_errors=True)
        os.makedirs(dst)
        for fn in os.listdir(self.dir):
            p = os.path.join(self.dir, fn)
            if os.path.isfile(p):
                shutil.copyfile(p, os.path.join(dst, fn))
        self._image_hashes[hh] = dst
        rec = {"event": self.cur.idx if self.cur is not None else None, "point": self.point_no,
               "label": label, "path": dst, "t": self.now(), "wall_jump": self.wall_jump}
        self.images.append(rec)
        return rec

    def drop_images(self):
        for rec in self.images:
            shutil.rmtree(rec["path"], ignore_errors=True)
        self.images = []
        self._image_hashes = {}

    # ------------------------------------------------------------ lifecycle
    def start(self, step=None, kind="start"):
        assert not self.running
        self.reactor = MemoryReactorClock()
        if self.t_resume:
            self.reactor.advance(self.t_resume)
        seams.install(self)
        if self._log_observer is None:
            self._log_observer = self._observe
            txlog.addObserver(self._log_observer)
        self.inc += 1
        ev = self.begin(kind, step=step)
        try:
            opts = server_tap.Options()
            opts.parseOptions(self.argv())
            self.service = server_tap.makeService(opts, reactor=self.reactor)
            for s in self.service.services:
                if isinstance(s, TimerService):
                    s.clock = self.reactor
                    self.timer = s
            self.started_wall = self.wall()
            ev.notes["pragmas"] = self._pragmas()
            self.service.startService()
            self.site = self.reactor.tcpServers[-1][1]
            self.site.reactor = self.reactor
            # the websocket factory's own reactor attribute ("for tests to control")
            try:
                ch = getattr(self.site.resource, "children", {})
                for res in ch.values():
                    f = getattr(res, "_factory", None)
                    if f is not None and hasattr(f, "reactor"):
                        f.reactor = self.reactor
            except Exception:
                pass
            self.running = True
            self.sweep_alive = self._sweep_pending()
        except Exception as e:
            ev.errors.append({"kind": "start_failed", "type": type(e).__name__, "text": str(e)[:300],
                              "where": repo_frame(sys.exc_info()[2])})
            self.running = False
        ev.notes["sweep"] = True
        self.end()
        return ev

    def _pragmas(self):
        out = {}
        for name, db in sorted(self.dbs.items()):
            try:
                jm = db.raw_execute("PRAGMA journal_mode").fetchone()
                sy = db.raw_execute("PRAGMA synchronous").fetchone()
                fk = db.raw_execute("PRAGMA foreign_keys").fetchone()

                def v(r):
                    if isinstance(r, dict):
                        return list(r.values())[0]
                    return r[0]
                out[name] = {"journal_mode": v(jm), "synchronous": v(sy), "foreign_keys": v(fk)}
            except Exception as e:
                out[name] = {"error": str(e)}
        return out

    def _sweep_pending(self):
        for c in self.reactor.getDelayedCalls():
            if isinstance(c.func, LoopingCall):
                return True
        return False

    def _close_dbs(self):
        for db in list(self.all_dbs):
            try:
                seams._real_sqlite3.Connection.close(db)
            except Exception:
                pass
        self.all_dbs = []
        self.dbs = {}

    def stop_clean(self, step=None):
        """orderly shutdown: every connection is lost, services stop, handles close"""
        ev = self.begin("stop", step=step)
        try:
            for c in list(self.conns.values()):
                if c.alive:
                    self._conn_lost(c, ConnectionLost(), record=False)
            d = self.service.stopService()
            self._settle()
        except Exception as e:
            ev.errors.append({"kind": "internal_error", "type": type(e).__name__, "text": str(e)[:300],
                              "where": repo_frame(sys.exc_info()[2]), "conn": None})
        self._close_dbs()
        self.running = False
        self.t_resume = self.reactor.seconds()
        self.end()
        return ev

    def kill(self, step=None):
        """process death: no server code runs; open transactions are rolled back
        by the journal exactly as the next open would do"""
        ev = self.begin("kill", step=step)
        for c in self.conns.values():
            c.alive = False
        self._close_dbs()
        self.running = False
        self.t_resume = self.reactor.seconds()
        self.end()
        return ev

    def dispose(self):
        try:
            if self.running:
                for c in self.conns.values():
                    c.alive = False
                self._close_dbs()
                self.running = False
        finally:
            self.close_readers()
            if self._log_observer is not None:
                try:
                    txlog.removeObserver(self._log_observer)
                except ValueError:
                    pass
                self._log_observer = None
            self.drop_images()
            if self.owns_dir:
                shutil.rmtree(self.dir, ignore_errors=True)
            if seams.TIME.world is self:
                seams.uninstall()

    # ---------------------------------------------------------- connections
    def connect(self, cid, step=None):
        ev = self.begin("connect", step=step, conn=cid)
        c = SimConn(cid, self)
        self.conns[cid] = c
        try:
            proto = self.site.buildProtocol(IPv4Address("TCP", "10.0.1.1", 40000 + cid))
            c.st = SimTransport(proto, c, self)
            proto.makeConnection(c.st)
            key = seams.make_rng(self.seed, "wskey%d" % cid).getrandbits(128).to_bytes(16, "big")
            self._deliver(c, wf.handshake_request(key))
            self._settle()
        except Exception as e:
            ev.errors.append({"kind": "internal_error", "type": type(e).__name__, "text": str(e)[:300],
                              "where": repo_frame(sys.exc_info()[2]), "conn": cid})
            c.alive = False
        self.end()
        return ev

    def _deliver(self, c, data):
        """hand bytes to the server side of connection c (one dataReceived)"""
        if not c.alive or not data:
            return
        try:
            c.st.protocol.dataReceived(data)
        except seams.SimDeath:
            return
        except Exception as e:
            if self.dead_now:
                return
            tb = sys.exc_info()[2]
            self.cur.errors.append({"kind": "internal_error", "type": type(e).__name__,
                                    "text": str(e)[:300], "where": repo_frame(tb), "conn": c.id})
            self.count("internal_errors")
            # what twisted.internet.tcp does with a protocol that raises
            self._conn_lost(c, ConnectionLost(), record=False)

    def _conn_lost(self, c, reason, record=True):
        if not c.alive:
            return
        c.alive = False
        try:
            c.st.protocol.connectionLost(Failure(reason))
        except Exception as e:
            self.cur.errors.append({"kind": "internal_error", "type": type(e).__name__,
                                    "text": str(e)[:300], "where": repo_frame(sys.exc_info()[2]),
                                    "conn": c.id, "in": "connectionLost"})

    def _settle(self):
        """deliver client control replies and finish server-side disconnects"""
        for _ in range(100):
            moved = False
            for c in list(self.conns.values()):
                if not c.alive:
                    continue
                if c.replies and not c.stalled:
                    data = b"".join(c.replies)
                    c.replies = []
                    moved = True
                    self._deliver(c, data)
                if c.alive and c.st.disconnecting and c.lingering:
                    continue      # close handshake done; the TCP connection goes away later
                if c.alive and c.st.disconnecting:
                    moved = True
                    if not c.closing:
                        self.cur.errors.append({"kind": "server_drop", "conn": c.id,
                                                "aborted": c.st.aborted,
                                                "expected": bool(c.stalled or c.missed_pings)})
                        self.count("server_drops")
                    self._conn_lost(c, ConnectionDone(), record=False)
            if not moved:
                return
        raise RuntimeError("settle did not converge")

    def on_server_write(self, c, data):
        if self.dead_now:
            return            # (a dead process writes nothing)
        try:
            evs = c.parser.feed(data)
        except Exception as e:
            self.cur.errors.append({"kind": "harness_parse_error", "text": str(e), "conn": c.id})
            return
        for e in evs:
            if e[0] == "http":
                c.handshaken = b" 101 " in e[1] + b" "
                if not c.handshaken:
                    self.cur.errors.append({"kind": "handshake_failed", "conn": c.id,
                                            "text": e[1].decode("latin1")})
                continue
            op, payload = e[1], e[2]
            if op == wf.OP_TEXT:
                try:
                    obj = json.loads(payload.decode("utf-8"))
                except Exception:
                    obj = {"__undecodable__": payload.decode("latin1")}
                self.on_frame(c, obj)
            elif op == wf.OP_PING:
                self.count("pings_seen")
                if c.stalled:
                    c.missed_pings.append(payload)
                else:
                    c.replies.append(wf.encode_frame(wf.OP_PONG, payload, c.mask()))
            elif op == wf.OP_CLOSE:
                if not c.closing and not c.stalled:
                    c.closing_by_server = True
                    c.replies.append(wf.encode_frame(wf.OP_CLOSE, payload[:2], c.mask()))
            elif op == wf.OP_BIN:
                self.on_frame(c, {"__binary__": payload.hex()})

    def on_frame(self, c, obj):
        ev = self.cur
        ev.frames.append((c.id, obj))
        c.frames.append((ev.idx, obj))
        t = obj.get("type") if isinstance(obj, dict) else None
        if t == "claimed":
            c.last["claimed"] = obj.get("mailbox")
        elif t == "allocated":
            c.last["allocated"] = obj.get("nameplate")
        self.frame_counter += 1
        self.count("frames")
        if ev.sends is not None and t == "ack" and c.id == ev.conn:
            # a batch: the ack marks the boundary between two commands
            ch, us = self.snapshot()
            ev.mids.append((len(ev.frames) - 1, ch, us))
        if self.check_c09:
            self._c09_at_frame(c, obj, t)
            if t != "ack" and t != "welcome":
                # what has been stored (as a second reader sees it) when this frame goes out
                if ev._fs_calls != ev.dbcalls:
                    ev._fs_calls = ev.dbcalls
                    if ev.dbcalls == 0 and ev.pre is not None:
                        ev.notes["_fs_last"] = None      # nothing touched: equals the pre-state
                    else:
                        ch, us = self.snapshot()
                        ev.notes["_fs_last"] = (ch.key(), us.key() if us is not None else None)
                ev.fstates[len(ev.frames) - 1] = ev.notes.get("_fs_last")
        if self.capture:
            self.take_image("frame:%s" % t)

    def _c09_at_frame(self, c, obj, t):
        st = self.stats_c09
        st["frames"] += 1
        if t in DATA_TYPES:
            st["data_frames"] += 1
        for name, db in sorted(self.dbs.items()):
            intx = db.in_transaction
            full = intx or (self.frame_counter % self.c09_full_every == 0)
            if intx:
                st["in_txn"] += 1
            if not full:
                continue
            st["full_compares"] += 1
            try:
                if name == "channel":
                    own = alpha.read_channel(db).key()
                    rd = alpha.read_channel(self._reader(name)).key()
                else:
                    own = alpha.read_usage(db).key()
                    rd = alpha.read_usage(self._reader(name)).key()
            except Exception as e:
                if isinstance(e, sqlite3.OperationalError) and "locked" in str(e) and intx:
                    # (a transaction large enough to have spilled its cache: the reader cannot
                    # even look - the frame goes out with uncommitted changes)
                    self.cur.c09.append({"conn": c.id, "frame": t, "db": name, "in_transaction": intx,
                                         "frame_no": len(self.cur.frames) - 1})
                    self.count("reader_locked_out")
                    continue
                self.cur.errors.append({"kind": "harness_error", "text": "c09 read: %r" % (e,)})
                continue
            if own != rd:
                self.cur.c09.append({"conn": c.id, "frame": t, "db": name, "in_transaction": intx,
                                     "frame_no": len(self.cur.frames) - 1})

    # ---------------------------------------------------------------- sends
    def send(self, cid, msgs, step=None, seg=None, kind="send", raw=None, wire=None, gap=None):
        """deliver one or several commands of connection cid to the server.
        msgs: list of JSON-able objects (one websocket text frame each), all in
        one TCP segment unless seg (list of cut offsets as fractions) splits it."""
        c = self.conns.get(cid)
        if c is not None and c.held_msgs:
            # commands that were in flight (delayed) arrive together with this one
            held = c.held_msgs
            c.held_msgs = []
            self.count("fault_delayed_delivery")
            if all(isinstance(m, dict) and "type" in m for m in msgs):
                msgs = held + list(msgs)
                kind = "batch"
            else:
                # a command without type gets no ack: keep it in an event of its own so
                # that every frame can be attributed to its command
                self.send(cid, held, step=step, kind="batch" if len(held) > 1 else "send")
        ev = self.begin(kind, step=step, conn=cid, msg=msgs[0] if len(msgs) == 1 else None)
        if len(msgs) != 1:
            ev.sends = list(msgs)
        if c is None or not c.alive or not c.handshaken:
            ev.notes["noop"] = "connection not usable"
            self.end()
            return ev
        if len(msgs) != 1 or c.held:
            gap = None        # (time passes only inside a command that travels alone)
        if wire:
            self.count("fault_ws_fragmented" if wire.get("frag") else "fault_ws_ping")
            data = c.held + b"".join(wf.encode_text_wire(m, c.mask, wire) for m in msgs)
        else:
            data = c.held + b"".join(wf.encode_text(m, c.mask()) for m in msgs)
        c.held = b""
        if seg:
            cuts = sorted(set(max(1, min(len(data) - 1, int(f * len(data)))) for f in seg)) if len(data) > 1 else []
            self.count("fault_segment")
            ev.notes["cuts"] = cuts
            pos = 0
            for cut in cuts + [len(data)]:
                if cut > pos:
                    if pos and gap:
                        # a slow sender: time passes between two pieces of one command (never
                        # across a timer, so that the command stays one event)
                        r = self.reactor
                        due = [x.getTime() for x in r.getDelayedCalls()]
                        g = min([gap] + [t - r.seconds() - 0.001 for t in due])
                        if g > 0:
                            r.rightNow += g
                            self.count("sim_seconds", g)
                            self.count("fault_slow_sender")
                            # the command takes effect when its last byte has arrived
                            ev.t, ev.wall = self.now(), self.wall()
                    self._deliver(c, data[pos:cut])
                    pos = cut
        else:
            self._deliver(c, data)
        if not self.dead_now:
            self._settle()
        if self.death_at is not None:
            self.death_at = None
            ev.notes["death_not_reached"] = True
        if self.dead_now:
            # the process is gone: its open transaction is rolled back (and its locks released)
            # before anybody looks at the files
            self._close_dbs()
        self.end()
        if self.dead_now:
            # nothing of the process survives; the files hold what was committed
            self.dead_now = False
            self.kill(step=step)
        return ev

    def hold(self, cid, msgs):
        """queue bytes client-side without delivering them (network delay)"""
        c = self.conns.get(cid)
        if c is None or not c.alive:
            return
        c.held_msgs += list(msgs)

    def drop(self, cid, how, step=None):
        c = self.conns.get(cid)
        ev = self.begin("drop", step=step, conn=cid)
        ev.notes["how"] = how
        if c is None or not c.alive:
            ev.notes["noop"] = "not alive"
            self.end()
            return ev
        if how == "abrupt":
            self.count("fault_conn_drop")
            self._conn_lost(c, ConnectionLost())
        elif how == "clean":
            self.count("fault_conn_close")
            c.closing = True
            self._deliver(c, wf.encode_frame(wf.OP_CLOSE, b"\x03\xe8", c.mask()))
            self._settle()
            if c.alive:
                # server did not drop the transport by itself: the client closes the socket
                self._conn_lost(c, ConnectionDone())
        elif how == "closing":
            # the websocket close handshake only: the server answers and asks its transport to
            # close, but the TCP teardown (connectionLost) reaches it later ("finish")
            self.count("fault_conn_close_lingering")
            c.closing = True
            c.lingering = True
            self._deliver(c, wf.encode_frame(wf.OP_CLOSE, b"\x03\xe8", c.mask()))
            self._settle()
        elif how == "finish":
            c.lingering = False
            self._conn_lost(c, ConnectionDone())
        elif how == "stall":
            self.count("fault_conn_stall")
            c.stalled = True
        elif how == "unstall":
            c.stalled = False
            for p in c.missed_pings:
                c.replies.append(wf.encode_frame(wf.OP_PONG, p, c.mask()))
            c.missed_pings = []
            self._settle()
        self.end()
        return ev

    # ----------------------------------------------------------------- time
    def clock_jump(self, delta, step=None):
        ev = self.begin("clock_jump", step=step)
        self.wall_jump += delta
        ev.notes["delta"] = delta
        self.count("fault_clock_jump")
        self.end()
        return ev

    def _timer_name(self, call):
        f = call.func
        if isinstance(f, LoopingCall):
            return "expire"
        q = getattr(f, "__qualname__", None) or type(f).__name__
        return q

    def advance(self, dt, step=None):
        """virtual time, timer by timer; returns the list of events"""
        out = []
        if not self.running:
            self.reactor.advance(dt)
            return out
        r = self.reactor
        target = r.seconds() + dt
        guard = 0
        while True:
            calls = r.getDelayedCalls()
            if not calls:
                break
            r._sortCalls()
            call = r.calls[0]
            if call.getTime() > target:
                break
            guard += 1
            if guard > 20000:
                raise RuntimeError("timer storm")
            if call.getTime() > r.rightNow:
                r.rightNow = call.getTime()
            name = self._timer_name(call)
            ev = self.begin("timer", step=step)
            ev.notes["timer"] = name
            r.calls.pop(0)
            call.called = 1
            try:
                call.func(*call.args, **call.kw)
            except Exception as e:
                ev.errors.append({"kind": "internal_error", "type": type(e).__name__, "text": str(e)[:300],
                                  "where": repo_frame(sys.exc_info()[2]), "conn": None, "in": "timer"})
            try:
                self._settle()
            except Exception as e:
                ev.errors.append({"kind": "harness_error", "text": repr(e)})
            if name == "expire":
                self.count("sweeps")
                ev.notes["sweep"] = True
                self.sweep_alive = self._sweep_pending()
                ev.notes["loop_alive"] = self.sweep_alive
            self.end()
            out.append(ev)
        r.rightNow = max(r.rightNow, target)
        return out

    def bounce_timer(self, step=None):
        ev = self.begin("restart", step=step)
        ev.notes["bounce"] = True
        try:
            self.timer.stopService()
            self.timer.startService()
        except Exception as e:
            ev.errors.append({"kind": "internal_error", "type": type(e).__name__, "text": str(e)[:300],
                              "where": repo_frame(sys.exc_info()[2]), "conn": None})
        ev.notes["sweep"] = True
        self.sweep_alive = self._sweep_pending()
        self.end()
        return ev

    def next_sweep_in(self):
        for c in self.reactor.getDelayedCalls():
            if isinstance(c.func, LoopingCall):
                return c.getTime() - self.reactor.seconds()
        return None

    # ---------------------------------------------------------------- faults
    def arm_db_fault(self, when, error="database is locked"):
        self.fault = {"when": when, "error": error}
