"""C19 / C20: database.py alone under file-system and SQL fault points.

Every call database.py makes into os / tempfile / shutil / sqlite3 is a fault
point (before and after), and so is every SQL statement inside an
executescript (trace callback).  At each point the directory is copied (crash
image); in separate executions an error is injected at each point instead.
"""
import os
import shutil
import sqlite3
import hashlib
import tempfile as _real_tempfile
import subprocess
import sys

from . import seams
from .seams import database, make_rng
from .harness import Engine, steps_hash
from .engines import COMMON_ASSUMPTIONS
from .world import scratch_root


class Injected(Exception):
    pass


class Sim(object):
    def __init__(self, workdir, capture=False, inject_at=None, inject_kind="os"):
        self.dir = workdir
        self.capture = capture
        self.inject_at = inject_at
        self.n = 0
        self.points = []       # labels
        self.images = []       # (n, label, path)
        self.fired = None
        self._hashes = set()
        self.img_root = workdir + "-img"

    def point(self, label, kind):
        """kind: 'os' | 'sql' | 'after' (after-points are image-only)"""
        self.n += 1
        self.points.append(label)
        if self.capture:
            self.image(label)
        if self.inject_at is not None and self.n == self.inject_at and kind != "after":
            self.fired = label
            if kind == "os":
                raise OSError(28, "No space left on device (injected at %s)" % label)
            raise sqlite3.OperationalError("disk I/O error (injected at %s)" % label)

    def point_soft(self, label):
        """a fault point inside a callback that cannot raise: returns True if
        the injection is due here (the caller makes the next statement fail)"""
        self.n += 1
        self.points.append(label)
        if self.capture:
            self.image(label)
        if self.inject_at is not None and self.n == self.inject_at:
            self.fired = label
            return True
        return False

    def image(self, label):
        h = hashlib.sha256()
        for fn in sorted(os.listdir(self.dir)):
            p = os.path.join(self.dir, fn)
            h.update(fn.encode())
            with open(p, "rb") as f:
                h.update(f.read())
        hh = h.hexdigest()
        if hh in self._hashes:
            return
        self._hashes.add(hh)
        dst = "%s/%03d" % (self.img_root, len(self.images))
        os.makedirs(self.img_root, exist_ok=True)
        shutil.copytree(self.dir, dst)
        self.images.append((self.n, label, dst))

    def cleanup(self):
        shutil.rmtree(self.img_root, ignore_errors=True)


class DConn(sqlite3.Connection):
    _sim = None

    def execute(self, sql, *a):
        s = self._sim
        if s is not None:
            s.point("execute:" + " ".join(sql.split())[:50], "sql")
        r = sqlite3.Connection.execute(self, sql, *a)
        if s is not None:
            s.point("after-execute", "after")
        return r

    def executescript(self, script):
        """the real executescript runs the whole script (exact autocommit /
        transaction semantics); statement boundaries are fault points through
        the trace callback (image) and the authorizer (injected failure of the
        next statement)"""
        s = self._sim
        if s is None:
            return sqlite3.Connection.executescript(self, script)
        s.point("executescript:begin", "sql")
        st = {"n": 0, "deny": False}

        def trace(stmt):
            st["n"] += 1
            if st["n"] > 1:
                if s.point_soft("script-stmt-%d:%s" % (st["n"], " ".join(stmt.split())[:40])):
                    st["deny"] = True

        def auth(*a):
            if st["deny"]:
                return sqlite3.SQLITE_DENY
            return sqlite3.SQLITE_OK
        self.set_trace_callback(trace)
        self.set_authorizer(auth)
        try:
            r = sqlite3.Connection.executescript(self, script)
        finally:
            self.set_trace_callback(None)
            self.set_authorizer(None)
        s.point("after-executescript", "after")
        return r

    def commit(self):
        s = self._sim
        if s is not None:
            s.point("commit", "sql")
        r = sqlite3.Connection.commit(self)
        if s is not None:
            s.point("after-commit", "after")
        return r

    def close(self):
        s = self._sim
        if s is not None:
            s.point("close", "after")
        r = sqlite3.Connection.close(self)
        if s is not None:
            s.point("after-close", "after")
        return r


def _is_txn_ctl(st):
    return st.strip().upper().startswith(("BEGIN", "COMMIT", "END", "ROLLBACK"))


def split_script(script):
    """split an SQL script into complete statements (sqlite3.complete_statement)"""
    out = []
    cur = ""
    for line in script.splitlines(True):
        cur += line
        if sqlite3.complete_statement(cur):
            if cur.strip() and not all(l.strip().startswith("--") or not l.strip() for l in cur.splitlines()):
                out.append(cur)
            cur = ""
    if cur.strip() and not all(l.strip().startswith("--") or not l.strip() for l in cur.splitlines()):
        out.append(cur)
    return out


class _Path(object):
    def __init__(self, sim):
        self.sim = sim

    def exists(self, p):
        self.sim.point("os.path.exists", "os")
        return os.path.exists(p)

    def __getattr__(self, name):
        return getattr(os.path, name)


class OsShim(object):
    def __init__(self, sim):
        self.sim = sim
        self.path = _Path(sim)

    def close(self, fd):
        self.sim.point("os.close", "os")
        r = os.close(fd)
        self.sim.point("after-os.close", "after")
        return r

    def rename(self, a, b):
        self.sim.point("os.rename", "os")
        r = os.rename(a, b)
        self.sim.point("after-os.rename", "after")
        return r

    def __getattr__(self, name):
        return getattr(os, name)


class TempShim(object):
    def __init__(self, sim):
        self.sim = sim
        self.k = 0

    def mkstemp(self, prefix="tmp", dir=None, **kw):
        self.sim.point("tempfile.mkstemp", "os")
        # deterministic name instead of a random one
        self.k += 1
        name = os.path.join(dir or ".", "%ssim%04d" % (prefix, self.k))
        fd = os.open(name, os.O_RDWR | os.O_CREAT | os.O_EXCL, 0o600)
        self.sim.point("after-mkstemp", "after")
        return fd, name

    def __getattr__(self, name):
        return getattr(_real_tempfile, name)


class ShutilShim(object):
    def __init__(self, sim):
        self.sim = sim

    def copy(self, a, b, **kw):
        self.sim.point("shutil.copy", "os")
        # a crash in the middle of the copy: half of the bytes are there
        if self.sim.capture:
            data = open(a, "rb").read()
            with open(b, "wb") as f:
                f.write(data[:len(data) // 2])
            self.sim.point("mid-shutil.copy", "after")
        if self.sim.capture and os.path.exists(b) and not os.path.islink(b):
            os.remove(b)
        r = shutil.copy(a, b, **kw)
        self.sim.point("after-shutil.copy", "after")
        return r

    def __getattr__(self, name):
        return getattr(shutil, name)


class SqlShim(object):
    def __init__(self, sim):
        self.sim = sim

    def connect(self, dbfile, *a, **kw):
        self.sim.point("sqlite3.connect", "sql")
        kw.setdefault("factory", DConn)
        db = sqlite3.connect(dbfile, *a, **kw)
        db._sim = self.sim
        self.sim.point("after-connect", "after")
        return db

    def __getattr__(self, name):
        return getattr(sqlite3, name)


class installed(object):
    def __init__(self, sim):
        self.sim = sim

    def __enter__(self):
        database.os = OsShim(self.sim)
        database.tempfile = TempShim(self.sim)
        database.shutil = ShutilShim(self.sim)
        database.sqlite3 = SqlShim(self.sim)
        return self.sim

    def __exit__(self, *a):
        database.os = seams._ORIG["db_os"]
        database.tempfile = seams._ORIG["db_tempfile"]
        database.shutil = seams._ORIG["db_shutil"]
        database.sqlite3 = seams._ORIG["db_sqlite3"]
        return False


# ---------------------------------------------------------------- helpers
TARGETS = {"channel": (database.create_or_upgrade_channel_db, database.CHANNELDB_TARGET_VERSION),
           "usage": (database.create_or_upgrade_usage_db, database.USAGEDB_TARGET_VERSION)}


def schema_dump(path):
    db = sqlite3.connect(path)
    try:
        rows = db.execute("SELECT type, name, tbl_name, sql FROM sqlite_master ORDER BY type, name").fetchall()
        return [tuple(" ".join(str(x).split()) if isinstance(x, str) else x for x in r) for r in rows]
    finally:
        db.close()


def full_dump(path):
    db = sqlite3.connect(path)
    try:
        out = {}
        for (name,) in db.execute("SELECT name FROM sqlite_master WHERE type='table' ORDER BY name").fetchall():
            out[name] = sorted(map(repr, db.execute("SELECT * FROM `%s`" % name).fetchall()))
        return out
    finally:
        db.close()


def version_of(path):
    db = sqlite3.connect(path)
    try:
        return [r[0] for r in db.execute("SELECT version FROM version").fetchall()]
    finally:
        db.close()


def fresh_reference(kind, root):
    d = os.path.join(root, "ref-%s-%d" % (kind, os.getpid()))
    shutil.rmtree(d, ignore_errors=True)
    os.makedirs(d)
    p = os.path.join(d, "ref.sqlite")
    db = TARGETS[kind][0](p)
    db.close()
    ref = (schema_dump(p), version_of(p))
    shutil.rmtree(d, ignore_errors=True)
    return ref


def close_quiet(db):
    try:
        if db is not None:
            sqlite3.Connection.close(db)
    except Exception:
        pass


def file_bytes(d):
    out = {}
    for fn in sorted(os.listdir(d)):
        with open(os.path.join(d, fn), "rb") as f:
            out[fn] = f.read()
    return out


def rand_rows_channel(rng, path):
    db = sqlite3.connect(path)
    n = rng.randint(0, 12)
    for i in range(n):
        mid = "mb%d" % i
        db.execute("INSERT INTO mailboxes (app_id, id, updated, for_nameplate) VALUES (?,?,?,?)",
                   (rng.choice(["a", "b", "ü"]), mid, rng.choice([1, 2.5, 10 ** 12]), rng.choice([0, 1])))
        db.execute("INSERT INTO mailbox_sides (mailbox_id, opened, side, added, mood) VALUES (?,?,?,?,?)",
                   (mid, 1, "s1", 1.5, None))
        if rng.random() < 0.5:
            cur = db.execute("INSERT INTO nameplates (app_id, name, mailbox_id) VALUES (?,?,?)", ("a", str(i), mid))
            db.execute("INSERT INTO nameplate_sides (nameplates_id, claimed, side, added) VALUES (?,?,?,?)",
                       (cur.lastrowid, 1, "s1", 2))
        for j in range(rng.randint(0, 3)):
            db.execute("INSERT INTO messages (app_id, mailbox_id, side, phase, body, server_rx, msg_id)"
                       " VALUES (?,?,?,?,?,?,?)", ("a", mid, "s1", "p", "body%d" % j, 3.25, None))
    db.commit()
    db.close()


def rand_rows_usage(rng, path, v1=False):
    db = sqlite3.connect(path)
    big = [0, 1, -1, 2 ** 40, 2 ** 62, 1.5, None]
    apps = ["a", "appid", "ünï", "", None]
    for i in range(rng.randint(0, 50)):
        db.execute("INSERT INTO nameplates (app_id, started, waiting_time, total_time, result) VALUES (?,?,?,?,?)",
                   (rng.choice(apps), rng.choice(big), rng.choice(big), rng.choice(big),
                    rng.choice(["happy", "lonely", "pruney", "crowded", None])))
    for i in range(rng.randint(0, 50)):
        db.execute("INSERT INTO mailboxes (app_id, for_nameplate, started, total_time, waiting_time, result)"
                   " VALUES (?,?,?,?,?,?)",
                   (rng.choice(apps), rng.choice([0, 1, None]), rng.choice(big), rng.choice(big), rng.choice(big),
                    rng.choice(["happy", "scary", "errory", None])))
    for i in range(rng.randint(0, 2)):
        db.execute("INSERT INTO current (rebooted, updated, blur_time, connections_websocket) VALUES (?,?,?,?)",
                   (rng.choice(big), rng.choice(big), rng.choice([None, 60]), rng.randint(0, 5)))
    if not v1:
        for i in range(rng.randint(0, 5)):
            db.execute("INSERT INTO client_versions (app_id, side, connect_time, implementation, version)"
                       " VALUES (?,?,?,?,?)", (rng.choice(apps), "s", rng.choice(big), "python", "0.1"))
    db.commit()
    db.close()


def make_v1_usage(rng, path):
    schema = database.get_schema("usage", 1)
    db = sqlite3.connect(path)
    db.executescript(schema)
    db.execute("INSERT INTO version (version) VALUES (1)")
    db.commit()
    db.close()
    rand_rows_usage(rng, path, v1=True)


# ------------------------------------------------- real process, real kill
CHILD = r"""
import sys, warnings
warnings.simplefilter("ignore")
sys.path.insert(0, sys.argv[1])
from wormhole_mailbox_server import database
fn = {"channel": database.create_or_upgrade_channel_db, "usage": database.create_or_upgrade_usage_db}[sys.argv[2]]
db = fn(sys.argv[3])
db.close()
"""
_SHIM = {}


def kill_shim():
    """build the LD_PRELOAD shim (mwsim/killshim.c) once per scratch root; None if no compiler"""
    root = scratch_root()
    if root in _SHIM:
        return _SHIM[root]
    src = os.path.join(os.path.dirname(os.path.abspath(__file__)), "killshim.c")
    import hashlib
    so = os.path.join(root, "killshim-%s.so" % hashlib.sha1(open(src, "rb").read()).hexdigest()[:10])
    ok = os.path.exists(so)
    if not ok:
        tmp = so + ".%d" % os.getpid()
        for cc in ("clang", "gcc", "cc"):
            try:
                r = subprocess.run([cc, "-shared", "-fPIC", "-O1", "-o", tmp, src, "-ldl"], capture_output=True, timeout=120)
            except Exception:
                continue
            if r.returncode == 0:
                os.replace(tmp, so)
                ok = True
                break
    _SHIM[root] = so if ok else None
    return _SHIM[root]


WRITER = r"""
import sys, sqlite3
db = sqlite3.connect(sys.argv[3])
db.execute("PRAGMA cache_size=2")        # pages spill into the main file during the transaction
n = int(sys.argv[2])
for i in range(n):
    db.execute("INSERT INTO nameplates (app_id, started, waiting_time, total_time, result) VALUES (?,?,?,?,?)",
               ("late-%d" % i, i, None, i * 2, "happy" + "y" * 200))
    db.execute("INSERT INTO mailboxes (app_id, for_nameplate, started, total_time, waiting_time, result)"
               " VALUES (?,?,?,?,?,?)", ("late-%d" % i, 1, i, i, None, "lonely" + "z" * 200))
db.commit()
db.close()
"""


def run_child(kind, path, watch_dir, kill_at=0, log=None, script=None, cwd=None):
    env = dict(os.environ, LD_PRELOAD=kill_shim(), MWSIM_KILL_DIR=watch_dir, MWSIM_KILL_AT=str(kill_at),
               PYTHONHASHSEED="0")
    if log:
        env["MWSIM_KILL_LOG"] = log
    else:
        env.pop("MWSIM_KILL_LOG", None)
    r = subprocess.run([sys.executable, "-c", script or CHILD, os.path.join(seams.REPO, "src"), kind, path],
                       env=env, capture_output=True, timeout=120, cwd=cwd)
    return r.returncode, r.stderr.decode("utf-8", "replace")[-300:]


def syscall_kill_points(kind, make_dir, judge, threads=8, script=None, sample=None):
    """Kill a real server start-up process right before each of its file-system
    operations (LD_PRELOAD shim), in turn.  make_dir(tag) -> (dir, dbpath) prepares
    the scenario; judge(dir, label) checks what the kill left behind.
    Returns (number of operations, list of their names) or (0, reason)."""
    if kill_shim() is None:
        return 0, "no C compiler: syscall-level kill points skipped"
    d, p = make_dir("rec")
    log = d + ".oplog"
    try:
        rc, err = run_child(kind, p, d, 0, log, script=script, cwd=None if os.path.isabs(p) else d)
        if rc != 0:
            return 0, "child failed without fault: %s" % err
        ops = [l.split(" ", 2)[1] for l in open(log).read().splitlines() if l.strip()]
    finally:
        shutil.rmtree(d, ignore_errors=True)
        if os.path.exists(log):
            os.remove(log)

    def one(k):
        # phase 1 (parallel): only the child process; judging happens afterwards, in order,
        # in the calling thread, so that the verdict list is deterministic
        dd, pp = make_dir("k%d" % k)
        try:
            rc, err = run_child(kind, pp, dd, k, script=script, cwd=None if os.path.isabs(pp) else dd)
        except Exception as e:
            rc, err = -1, repr(e)
        return k, dd, rc, err
    from concurrent.futures import ThreadPoolExecutor
    with ThreadPoolExecutor(max_workers=threads) as ex:
        ks = list(range(1, len(ops) + 1))
        if sample is not None and len(ks) > sample:
            # the first and last operations and an even spread in between
            edge = sample // 4
            mid = ks[edge:-edge]
            step = max(1, len(mid) // (sample - 2 * edge))
            ks = ks[:edge] + mid[::step] + ks[-edge:]
        ran = list(ex.map(one, ks))
    results = []
    for (k, dd, rc, err) in ran:
        try:
            if rc == -1:
                # the child could not be run to its end (time-out on a loaded machine): once more, alone
                shutil.rmtree(dd, ignore_errors=True)
                k, dd, rc, err = one(k)
                if rc == -1:
                    raise RuntimeError("kill point %d: child process could not be run: %s" % (k, err))
            if rc != 137:
                results.append((k, "kill point %d (%s): child ended with status %s instead of being killed: %s"
                                % (k, ops[k - 1], rc, err)))
            else:
                results.append((k, judge(dd, "kill -9 right before file-system operation %d of %d (%s)"
                                         % (k, len(ops), ops[k - 1]))))
        finally:
            shutil.rmtree(dd, ignore_errors=True)
    problems = [(k, r) for (k, r) in results if r]
    return len(ops), (ops, problems)


class DbEngine(Engine):
    level = "fault_enumeration"
    assumptions = COMMON_ASSUMPTIONS[:1] + [
        "a crash leaves exactly the bytes present between two calls of database.py into os/tempfile/shutil/sqlite3 "
        "or between two SQL statements of a script (plus a half-written backup copy); no reordering below that",
        "sampling over pre-existing file contents; the fault points of each creation/upgrade are enumerated completely"]

    def runs(self, tier):
        return self.RUNS[0] if tier == "quick" else self.RUNS[1]

    def v(self, clause, text, sig=None):
        return {"prop": self.pid, "clause": clause, "event": None, "step": None, "text": text, "sig": sig}

    def workdir(self, tag):
        d = os.path.join(scratch_root(), "db-%s-%d-%s" % (self.pid, os.getpid(), tag))
        shutil.rmtree(d, ignore_errors=True)
        os.makedirs(d)
        return d

    def evaluate(self, seed, tier):
        spec = {"seed": seed}
        viol, facts = self.case(spec)
        s = {"seed": seed, "viol": viol, "hash": steps_hash(facts.get("input"), self.pid),
             "nontrivial": bool(facts.get("nontrivial")), "counters": facts.get("counters", {}), "probes": {},
             "events": facts.get("points", 0), "steps": 0, "sim": 0.0, "shapes": set(), "trans": set(),
             "extra": facts.get("extra", {})}
        if viol or seed % 50 == 0:
            s["spec"] = dict(spec, input=facts.get("input"))
        return s

    def respec(self, seed, tier):
        return {"seed": seed}

    def replay(self, spec):
        return self.case(spec)[0]

    def minimise(self, spec, v):
        return spec

    def extra_evidence(self, agg):
        e = agg["extra"]
        return {"syscall_level_kill_points_of_a_real_process": e.get("syscall_kill_points", 0),
                "v1_databases_left_by_a_killed_writer": e.get("hot_journal_preconditions", 0),
                "fault_points_enumerated": e.get("points", 0), "crash_images_checked": e.get("images", 0),
                "errors_injected": e.get("injections", 0), "rejection_cases": e.get("rejections", 0),
                "components": {"real": ["database.py (all of it)", ".sql schema and upgrade scripts", "SQLite on real files"],
                               "simulated": ["os.path.exists/os.close/os.rename", "tempfile.mkstemp", "shutil.copy",
                                             "sqlite3.connect + Connection.execute/executescript/commit/close",
                                             "process death (directory images)", "ENOSPC / disk I/O error"],
                               "stub": []}}


# --------------------------------------------------------------------- C19
class C19Engine(DbEngine):
    pid = "C19"
    RUNS = (300, 6000)
    rule = ("per seed: first-time creation of the channel or usage database (alternating) with a crash image before and "
            "after every call into os/tempfile/shutil/sqlite3 and every statement of the schema script, then one "
            "execution per fault point with ENOSPC / disk-I/O-error injected there; plus generated pre-existing files "
            "(current-version database with rows, empty, random bytes, truncated database, newer version) and the "
            "create-only / open-only entry points; non-trivial = every seed (all fault points of a creation are "
            "enumerated); distinct = distinct (schema, generated file contents)")

    def case(self, spec):
        seed = spec["seed"]
        rng = make_rng(seed, "c19")
        kind = ["channel", "usage"][seed % 2]
        opener, target = TARGETS[kind]
        viol = []
        extra = {"points": 0, "images": 0, "injections": 0, "rejections": 0}
        root = scratch_root()
        ref_schema, ref_version = fresh_reference(kind, root)

        def check_dir(d, where, path_name="db.sqlite"):
            """nothing at the target path unless it is a complete database; next start succeeds"""
            p = os.path.join(d, path_name)
            if os.path.exists(p):
                try:
                    sd, ver = schema_dump(p), version_of(p)
                except Exception as e:
                    viol.append(self.v("nothing-or-complete", "%s: target path holds an unreadable file: %r" % (where, e)))
                    return
                if sd != ref_schema or ver != ref_version:
                    viol.append(self.v("nothing-or-complete",
                                       "%s: target path holds an incomplete database (version rows %r, %d schema objects, "
                                       "complete has %d)" % (where, ver, len(sd), len(ref_schema))))
                    return
            try:
                db = opener(p)
                close_quiet(db)
            except Exception as e:
                viol.append(self.v("next-start-succeeds", "%s: the next start fails: %s: %s" % (where, type(e).__name__, e)))
                return
            if schema_dump(p) != ref_schema or version_of(p) != ref_version:
                viol.append(self.v("next-start-succeeds", "%s: the next start left an incomplete database" % where))

        # 1. creation with crash images
        d = self.workdir("create")
        sim = Sim(d, capture=True)
        p = os.path.join(d, "db.sqlite")
        try:
            with installed(sim):
                db = opener(p)
                close_quiet(db)
            npoints = sim.n
            extra["points"] += npoints
            for (n, label, img) in sim.images:
                extra["images"] += 1
                check_dir(img, "crash at point %d (%s) of %s creation" % (n, label, kind))
                if viol:
                    break
            if not viol:
                check_dir(d, "after uninterrupted %s creation" % kind)
        finally:
            sim.cleanup()
            shutil.rmtree(d, ignore_errors=True)
        # 2. injected errors at every point
        if not viol:
            for k in range(1, npoints + 1):
                d = self.workdir("inject")
                sim = Sim(d, inject_at=k)
                p = os.path.join(d, "db.sqlite")
                db = None
                try:
                    with installed(sim):
                        try:
                            db = opener(p)
                        except Exception:
                            pass
                    close_quiet(db)
                    if sim.fired:
                        extra["injections"] += 1
                        check_dir(d, "error injected at point %d (%s) of %s creation" % (k, sim.fired, kind))
                finally:
                    shutil.rmtree(d, ignore_errors=True)
                if viol:
                    break
        # 3. pre-existing contents
        inputs = []
        if not viol:
            for case in ("rows", "empty", "random", "truncated", "newer", "create-only", "open-only", "odd-path", "siblings",
                         "symlinks"):
                d = self.workdir("pre")
                p = os.path.join(d, "db.sqlite")
                try:
                    if case in ("rows", "truncated", "newer", "create-only"):
                        db = opener(p)
                        close_quiet(db)
                        (rand_rows_channel if kind == "channel" else rand_rows_usage)(rng, p)
                    if case == "rows":
                        before_dump, before_bytes = full_dump(p), file_bytes(d)
                        db = opener(p)
                        close_quiet(db)
                        if full_dump(p) != before_dump:
                            viol.append(self.v("existing-database-kept", "opening an existing %s database changed its rows" % kind))
                        if file_bytes(d).get("db.sqlite") != before_bytes.get("db.sqlite"):
                            viol.append(self.v("existing-database-kept", "opening an existing %s database changed its bytes" % kind))
                        inputs.append(("rows", sum(len(v) for v in before_dump.values())))
                    elif case in ("empty", "random", "truncated", "newer"):
                        if case == "empty":
                            open(p, "wb").close()
                        elif case == "random":
                            with open(p, "wb") as f:
                                f.write(bytes(rng.getrandbits(8) for _ in range(rng.choice([1, 16, 100, 4096, 5000]))))
                        elif case == "truncated":
                            data = open(p, "rb").read()
                            cut = rng.choice([1, 15, 16, 100, 1024, len(data) // 2, len(data) - 1])
                            with open(p, "wb") as f:
                                f.write(data[:cut])
                        elif case == "newer":
                            c = sqlite3.connect(p)
                            c.execute("UPDATE version SET version=?", (target + rng.randint(1, 5),))
                            c.commit()
                            c.close()
                        before = file_bytes(d)
                        raised = None
                        db = None
                        try:
                            db = opener(p)
                        except Exception as e:
                            raised = e
                        close_quiet(db)
                        after = file_bytes(d)
                        extra["rejections"] += 1
                        inputs.append((case, len(before.get("db.sqlite", b""))))
                        if after.get("db.sqlite") != before.get("db.sqlite"):
                            viol.append(self.v("rejected-file-unchanged",
                                               "%s file (%d bytes) was modified by the attempt to open it as %s database"
                                               % (case, len(before["db.sqlite"]), kind)))
                        if raised is None and case != "truncated":
                            viol.append(self.v("non-database-rejected",
                                               "%s file was accepted as a %s database" % (case, kind)))
                        if sorted(after) != sorted(before):
                            extra_files = sorted(set(after) - set(before))
                            if any(not f.startswith("db.sqlite") for f in extra_files):
                                viol.append(self.v("rejected-file-unchanged", "rejecting a %s file left %r" % (case, extra_files)))
                    elif case == "create-only":
                        before = file_bytes(d)
                        fn = database.create_channel_db if kind == "channel" else database.create_usage_db
                        try:
                            db = fn(p)
                            close_quiet(db)
                            viol.append(self.v("create-only-refuses-existing", "create_%s_db accepted an existing file" % kind))
                        except database.DBAlreadyExists:
                            pass
                        if file_bytes(d) != before:
                            viol.append(self.v("create-only-refuses-existing", "create_%s_db changed an existing file" % kind))
                    elif case == "odd-path":
                        # a path the shell did not expand ("~/x.sqlite", taken literally), a
                        # relative path and one with a space: started twice, rows must survive
                        cwd, home = os.getcwd(), os.environ.get("HOME")
                        try:
                            os.chdir(d)
                            os.makedirs(os.path.join(d, "~"), exist_ok=True)
                            os.makedirs(os.path.join(d, "home"), exist_ok=True)
                            os.makedirs(os.path.join(d, "a b"), exist_ok=True)
                            os.environ["HOME"] = os.path.join(d, "home")
                            for rel in ("~/tilde.sqlite", "a b/space.sqlite", "./rel.sqlite"):
                                db = opener(rel)
                                close_quiet(db)
                                files = sorted(os.path.join(r, f) for r, _, fs in os.walk(d) for f in fs)
                                real = [f for f in files if f.endswith(os.path.basename(rel))]
                                if len(real) != 1:
                                    viol.append(self.v("existing-database-kept", "start on %r left files %r" % (rel, files)))
                                    break
                                (rand_rows_channel if kind == "channel" else rand_rows_usage)(rng, real[0])
                                before_dump = full_dump(real[0])
                                db = opener(rel)
                                close_quiet(db)
                                files2 = sorted(os.path.join(r, f) for r, _, fs in os.walk(d) for f in fs)
                                if files2 != files or full_dump(real[0]) != before_dump:
                                    viol.append(self.v("existing-database-kept",
                                                       "a second start on the path %r did not keep the existing %s database "
                                                       "(files %r -> %r)" % (rel, kind, files, files2)))
                                    break
                                fn = database.create_channel_db if kind == "channel" else database.create_usage_db
                                try:
                                    close_quiet(fn(rel))
                                    viol.append(self.v("create-only-refuses-existing",
                                                       "create_%s_db accepted the existing path %r" % (kind, rel)))
                                    break
                                except database.DBAlreadyExists:
                                    pass
                        finally:
                            os.chdir(cwd)
                            if home is None:
                                os.environ.pop("HOME", None)
                            else:
                                os.environ["HOME"] = home
                        inputs.append(("odd-path", 3))
                    elif case == "siblings":
                        # other files next to the database path: the companion database of the other
                        # kind under a related name, an operator's copy, a stale journal of something else
                        sib = {}
                        other = "usage" if kind == "channel" else "channel"
                        # (only files the statements protect: the other database of the pair, which the
                        # same start opens next, and a schema-upgrade backup; stale temporary files of an
                        # interrupted creation may be cleaned up)
                        for suffix in (".%s" % other, "-backup-v1"):
                            sp = p + suffix
                            if suffix == ".%s" % other:
                                close_quiet(TARGETS[other][0](sp))
                                (rand_rows_usage if other == "usage" else rand_rows_channel)(rng, sp)
                            else:
                                with open(sp, "wb") as f:
                                    f.write(bytes(rng.getrandbits(8) for _ in range(rng.choice([0, 10, 5000]))))
                        before = file_bytes(d)
                        close_quiet(opener(p))                         # first-time creation among them
                        after = file_bytes(d)
                        for fn, data in before.items():
                            if after.get(fn) != data:
                                viol.append(self.v("neighbours-untouched",
                                                   "creating the %s database %r %s the neighbouring file %r"
                                                   % (kind, os.path.basename(p),
                                                      "removed" if fn not in after else "modified", fn)))
                                break
                        inputs.append(("siblings", len(before)))
                    elif case == "symlinks":
                        # the configured path is a symbolic link: dangling (a fresh data volume), or
                        # leading to a database with rows
                        tgt = os.path.join(d, "data")
                        os.makedirs(tgt)
                        os.symlink(os.path.join(tgt, "real.sqlite"), p)
                        for attempt in (1, 2):
                            db = None
                            try:
                                db = opener(p)
                            except Exception as e:
                                viol.append(self.v("next-start-succeeds", "start #%d on a dangling symbolic link fails: %s: %s"
                                                   % (attempt, type(e).__name__, e)))
                                break
                            finally:
                                close_quiet(db)
                        if not viol:
                            if schema_dump(p) != ref_schema or version_of(p) != ref_version:
                                viol.append(self.v("nothing-or-complete", "a dangling symbolic link at the path did not become a complete database"))
                            junk = [f for f in os.listdir(tgt) if os.path.getsize(os.path.join(tgt, f)) == 0]
                            if junk:
                                viol.append(self.v("nothing-or-complete", "starting on a dangling symbolic link left empty file(s) %r at its target" % junk))
                        # open-only entry point on a dangling link: refuses and creates nothing
                        if not viol:
                            p3 = os.path.join(d, "other.sqlite")
                            os.symlink(os.path.join(tgt, "other-real.sqlite"), p3)
                            try:
                                db = database.open_existing_db(p3)
                                close_quiet(db)
                                viol.append(self.v("open-only-never-creates", "open_existing_db opened a dangling symbolic link"))
                            except database.DBDoesntExist:
                                pass
                            except Exception as e:
                                viol.append(self.v("open-only-never-creates", "open_existing_db on a dangling link: %s: %s"
                                                   % (type(e).__name__, e)))
                            if os.path.exists(os.path.join(tgt, "other-real.sqlite")):
                                viol.append(self.v("open-only-never-creates", "open_existing_db created the target of a dangling link"))
                        # a link to a database with rows: opened in place, rows kept
                        if not viol:
                            real = os.path.join(tgt, "rows.sqlite")
                            close_quiet(opener(real))
                            (rand_rows_channel if kind == "channel" else rand_rows_usage)(rng, real)
                            p4 = os.path.join(d, "linked.sqlite")
                            os.symlink(real, p4)
                            before_dump = full_dump(real)
                            close_quiet(opener(p4))
                            if not os.path.islink(p4) or full_dump(real) != before_dump:
                                viol.append(self.v("existing-database-kept", "opening a %s database through a symbolic link changed it" % kind))
                        inputs.append(("symlinks", 3))
                    elif case == "open-only":
                        try:
                            db = database.open_existing_db(p)
                            close_quiet(db)
                            viol.append(self.v("open-only-never-creates", "open_existing_db opened a missing path"))
                        except database.DBDoesntExist:
                            pass
                        if os.listdir(d):
                            viol.append(self.v("open-only-never-creates", "open_existing_db created %r" % os.listdir(d)))
                finally:
                    shutil.rmtree(d, ignore_errors=True)
                if viol:
                    break
        # 4. a real process killed before each of its file-system operations (per schema, once per batch)
        if not viol and seed % 10 ** 6 in (0, 1, 2, 3):
            bare = seed % 10 ** 6 in (2, 3)
            extra["syscall_bare_relative_name"] = int(bare)

            def make_dir(tag):
                # (seeds 2, 3: the server is started in the directory and given a bare file name)
                dd = self.workdir("sys-" + tag)
                return dd, ("db.sqlite" if bare else os.path.join(dd, "db.sqlite"))

            def judge(dd, label):
                before = len(viol)
                check_dir(dd, label + " of %s creation" % kind)
                return viol[before]["text"] if len(viol) > before else None
            n, res = syscall_kill_points(kind, make_dir, judge)
            if n == 0:
                extra["syscall_skipped"] = 1
            else:
                ops, problems = res
                extra["syscall_kill_points"] = n
                for (k, text) in problems:
                    if not any(v["text"] == text for v in viol):
                        viol.append(self.v("kill-at-any-syscall", text))
        return viol, {"input": [kind, inputs], "nontrivial": True, "points": extra["points"], "extra": extra,
                      "counters": {"fault_crash": extra["images"] + extra.get("syscall_kill_points", 0),
                                   "fault_disk_full_or_io_error": extra["injections"]}}


# --------------------------------------------------------------------- C20
class C20Engine(DbEngine):
    pid = "C20"
    RUNS = (600, 20000)
    rule = ("per seed: a version-1 usage database with generated rows (0-50 per table, NULLs, large integers, unicode "
            "app ids, 0-2 status rows) is opened by the normal start-up; a crash image is taken before and after every "
            "call into os/shutil/sqlite3, in the middle of the backup copy and at every statement of the upgrade "
            "script; each image is checked (no v1 record missing) and started normally (must succeed and reach the "
            "uninterrupted result); non-trivial = the generated database holds >=1 row; distinct = distinct contents")

    def case(self, spec):
        seed = spec["seed"]
        rng = make_rng(seed, "c20")
        viol = []
        extra = {"points": 0, "images": 0, "injections": 0}
        root = scratch_root()
        ref_schema, ref_version = fresh_reference("usage", root)
        d = self.workdir("up")
        p = os.path.join(d, "usage.sqlite")
        make_v1_usage(rng, p)
        old_bytes = open(p, "rb").read()
        old_dump = full_dump(p)
        nrows = sum(len(v) for k, v in old_dump.items() if k != "version")
        v1_tables = [t for t in old_dump if t != "version"]

        def records_intact(path, where):
            try:
                dump = full_dump(path)
            except Exception as e:
                viol.append(self.v("no-record-lost", "%s: main file unreadable: %r" % (where, e)))
                return False
            for t in v1_tables:
                if dump.get(t) != old_dump[t]:
                    viol.append(self.v("no-record-lost", "%s: table %s has %d rows, the old file had %d (or rows changed)"
                                       % (where, t, len(dump.get(t, [])), len(old_dump[t]))))
                    return False
            return True

        sim = Sim(d, capture=True)
        try:
            with installed(sim):
                db = database.create_or_upgrade_usage_db(p)
                close_quiet(db)
            extra["points"] = sim.n
            where = "uninterrupted upgrade"
            if schema_dump(p) != ref_schema or version_of(p) != ref_version:
                viol.append(self.v("upgraded-schema-is-current", "%s: schema/version differ from a fresh database: version %r"
                                   % (where, version_of(p))))
            records_intact(p, where)
            bk = p + "-backup-v1"
            if not os.path.exists(bk) or open(bk, "rb").read() != old_bytes:
                viol.append(self.v("backup-is-byte-identical", "%s: %s is missing or differs from the old file" % (where, bk)))
            final_dump = full_dump(p)
            for (n, label, img) in sim.images:
                if viol:
                    break
                extra["images"] += 1
                ip = os.path.join(img, "usage.sqlite")
                where = "crash at point %d (%s) of the upgrade" % (n, label)
                if not records_intact(ip, where):
                    break
                db = None
                try:
                    db = database.create_or_upgrade_usage_db(ip)
                except Exception as e:
                    viol.append(self.v("restart-completes-upgrade", "%s: starting again fails: %s: %s"
                                       % (where, type(e).__name__, e)))
                    break
                finally:
                    close_quiet(db)
                if schema_dump(ip) != ref_schema or version_of(ip) != ref_version:
                    viol.append(self.v("restart-completes-upgrade", "%s: starting again leaves schema/version %r"
                                       % (where, version_of(ip))))
                    break
                if full_dump(ip) != final_dump:
                    viol.append(self.v("restart-completes-upgrade", "%s: starting again yields different contents" % where))
                    break
                ibk = ip + "-backup-v1"
                if not os.path.exists(ibk) or open(ibk, "rb").read() != old_bytes:
                    viol.append(self.v("backup-is-byte-identical",
                                       "%s: after starting again the backup is missing or is not the old file" % where))
                    break
            # the same upgrade when the file is named differently (bare name in the working
            # directory, ./name, a path through a symlinked directory)
            if not viol:
                spelling = ["bare", "dot", "symlink", "symlink-file"][seed % 4]
                extra["spelling_" + spelling] = 1
                d2 = self.workdir("sp")
                cwd = os.getcwd()
                try:
                    with open(os.path.join(d2, "usage.sqlite"), "wb") as f:
                        f.write(old_bytes)
                    if spelling == "symlink":
                        os.symlink(d2, d2 + "-link")
                        name = os.path.join(d2 + "-link", "usage.sqlite")
                    elif spelling == "symlink-file":
                        # the configured path is a symbolic link to the database
                        os.makedirs(d2 + "-link")
                        os.symlink(os.path.join(d2, "usage.sqlite"), os.path.join(d2 + "-link", "usage.sqlite"))
                        name = os.path.join(d2 + "-link", "usage.sqlite")
                    else:
                        os.chdir(d2)
                        name = "usage.sqlite" if spelling == "bare" else "./usage.sqlite"
                    where = "upgrade of a file given as %r" % (name if not spelling.startswith("symlink") else
                                                               "<%s>/usage.sqlite" % spelling)
                    db = None
                    try:
                        db = database.create_or_upgrade_usage_db(name)
                    except Exception as e:
                        viol.append(self.v("upgrade-completes-however-the-file-is-named", "%s fails: %s: %s"
                                           % (where, type(e).__name__, e)))
                    finally:
                        close_quiet(db)
                    os.chdir(cwd)
                    p2 = os.path.join(d2, "usage.sqlite")
                    if not viol:
                        if schema_dump(p2) != ref_schema or version_of(p2) != ref_version or full_dump(p2) != final_dump:
                            viol.append(self.v("upgrade-completes-however-the-file-is-named",
                                               "%s: result differs from the upgrade by absolute path" % where))
                        else:
                            bk2 = (name if spelling == "symlink-file" else p2) + "-backup-v1"
                            if not os.path.exists(bk2) or open(bk2, "rb").read() != old_bytes:
                                viol.append(self.v("backup-is-byte-identical", "%s: backup missing or not the old file" % where))
                            if spelling == "symlink-file" and not viol:
                                # a second start (the upgrade is done) must be a no-op
                                db = None
                                try:
                                    db = database.create_or_upgrade_usage_db(name)
                                except Exception as e:
                                    viol.append(self.v("upgrade-completes-however-the-file-is-named",
                                                       "%s: the next start fails: %s: %s" % (where, type(e).__name__, e)))
                                finally:
                                    close_quiet(db)
                finally:
                    os.chdir(cwd)
                    shutil.rmtree(d2, ignore_errors=True)
                    if os.path.islink(d2 + "-link"):
                        os.remove(d2 + "-link")
                    else:
                        shutil.rmtree(d2 + "-link", ignore_errors=True)
            # real process killed before each of its file-system operations (every 25th seed)
            if not viol and seed % 25 == 0:
                seed_db = os.path.join(scratch_root(), "c20-seed-%d-%d.sqlite" % (os.getpid(), seed))
                with open(seed_db, "wb") as f:
                    f.write(old_bytes)

                def make_dir(tag):
                    dd = self.workdir("sys-" + tag)
                    pp = os.path.join(dd, "usage.sqlite")
                    shutil.copyfile(seed_db, pp)
                    return dd, pp

                def judge(dd, label):
                    pp = os.path.join(dd, "usage.sqlite")
                    before = len(viol)
                    where = label + " of the upgrade"
                    if records_intact(pp, where):
                        db2 = None
                        try:
                            db2 = database.create_or_upgrade_usage_db(pp)
                        except Exception as e:
                            viol.append(self.v("restart-completes-upgrade", "%s: starting again fails: %s: %s"
                                               % (where, type(e).__name__, e)))
                        finally:
                            close_quiet(db2)
                        if len(viol) == before:
                            if schema_dump(pp) != ref_schema or version_of(pp) != ref_version or full_dump(pp) != final_dump:
                                viol.append(self.v("restart-completes-upgrade", "%s: starting again does not reach the "
                                                   "uninterrupted result" % where))
                            bk2 = pp + "-backup-v1"
                            if not os.path.exists(bk2) or open(bk2, "rb").read() != old_bytes:
                                viol.append(self.v("backup-is-byte-identical", "%s: after starting again the backup is "
                                                   "missing or is not the old file" % where))
                    return viol[before]["text"] if len(viol) > before else None
                try:
                    n, res = syscall_kill_points("usage", make_dir, judge, threads=4)
                finally:
                    os.remove(seed_db)
                if n == 0:
                    extra["syscall_skipped"] = 1
                else:
                    extra["syscall_kill_points"] = n
                # a version-1 database whose last *writer* was killed inside a transaction (hot journal,
                # pages partly written): the upgrade must find every committed record
                if not viol and n:
                    seed_db2 = os.path.join(scratch_root(), "c20-seedw-%d-%d.sqlite" % (os.getpid(), seed))
                    with open(seed_db2, "wb") as f:
                        f.write(old_bytes)

                    def make_dir2(tag):
                        dd = self.workdir("hot-" + tag)
                        pp = os.path.join(dd, "usage.sqlite")
                        shutil.copyfile(seed_db2, pp)
                        return dd, pp

                    def judge2(dd, label):
                        pp = os.path.join(dd, "usage.sqlite")
                        before = len(viol)
                        where = "version-1 writer killed (%s), then a normal start" % label
                        db2 = None
                        try:
                            db2 = database.create_or_upgrade_usage_db(pp)
                        except Exception as e:
                            viol.append(self.v("restart-completes-upgrade", "%s fails: %s: %s" % (where, type(e).__name__, e)))
                        finally:
                            close_quiet(db2)
                        if len(viol) == before:
                            try:
                                dump = full_dump(pp)
                                chk = sqlite3.connect(pp)
                                ok = chk.execute("PRAGMA integrity_check").fetchall()
                                chk.close()
                            except Exception as e:
                                viol.append(self.v("no-record-lost", "%s: upgraded file unreadable: %r" % (where, e)))
                                return viol[before]["text"]
                            if ok != [("ok",)]:
                                viol.append(self.v("no-record-lost", "%s: integrity_check says %r" % (where, ok[:3])))
                            for t in v1_tables:
                                rows = dump.get(t, [])
                                late = [x for x in rows if "late-" in x]
                                base = [x for x in rows if "late-" not in x]
                                if sorted(base) != old_dump[t] or len(late) not in (0, 40 if t in ("nameplates", "mailboxes") else 0):
                                    viol.append(self.v("no-record-lost",
                                                       "%s: table %s holds %d old-style rows (the file had %d) and %d rows of "
                                                       "the interrupted transaction (must be none or all 40)"
                                                       % (where, t, len(base), len(old_dump[t]), len(late))))
                                    break
                            if schema_dump(pp) != ref_schema or version_of(pp) != ref_version:
                                viol.append(self.v("upgraded-schema-is-current", "%s: schema/version not current" % where))
                        return viol[before]["text"] if len(viol) > before else None
                    try:
                        n2, res2 = syscall_kill_points("40", make_dir2, judge2, threads=4, script=WRITER)
                    finally:
                        os.remove(seed_db2)
                    if n2:
                        extra["hot_journal_preconditions"] = n2
        finally:
            sim.cleanup()
            shutil.rmtree(d, ignore_errors=True)
        return viol, {"input": ["v1", hashlib.sha256(repr(sorted(old_dump.items())).encode()).hexdigest()[:12], nrows],
                      "nontrivial": nrows >= 1, "points": extra["points"], "extra": extra,
                      "counters": {"fault_crash": extra["images"]}}
