"""Self-tests of the simulator itself (DESIGN.md 4.16)."""
import os
import sys
import json
import subprocess

from .run import run_single
from .gen import PROFILES

VERIF = os.path.dirname(os.path.dirname(os.path.abspath(__file__)))


def digests(seeds, profiles):
    out = {}
    for p in profiles:
        for s in seeds:
            r = run_single(s, PROFILES[p], stop_at_first=False)
            out["%s/%d" % (p, s)] = [r.digest, len(r.violations), r.n_events]
    return out


def determinism(n, jobs):
    """every seed twice in-process, and once more in fresh interpreters under
    other PYTHONHASHSEED values; digests of the full event history must agree"""
    seeds = list(range(7000, 7000 + n))
    profiles = ["default", "C02", "C12", "C13", "C17"]
    a = digests(seeds, profiles)
    b = digests(seeds, profiles)
    bad = [k for k in a if a[k] != b[k]]
    if bad:
        print("HARNESS-ERROR nondeterminism in-process: %s" % bad[:5])
        return 2
    for hs in ("1", "123"):
        env = dict(os.environ, PYTHONHASHSEED=hs, VERIF_HASHSEED=hs)
        code = ("import sys, json; sys.path.insert(0, %r); from mwsim import selftest; "
                "print('DIGESTS' + json.dumps(selftest.digests(%r, %r)))" % (VERIF, seeds, profiles))
        p = subprocess.run([sys.executable, "-c", code], env=env, capture_output=True, text=True, timeout=1200)
        line = [l for l in p.stdout.splitlines() if l.startswith("DIGESTS")]
        if not line:
            print("HARNESS-ERROR fresh interpreter failed: %s" % p.stderr[-2000:])
            return 2
        c = json.loads(line[0][len("DIGESTS"):])
        bad = [k for k in a if a[k] != c.get(k)]
        if bad:
            print("HARNESS-ERROR nondeterminism under PYTHONHASHSEED=%s: %s" % (hs, bad[:5]))
            return 2
    print("determinism: %d runs x (2 in-process + 2 fresh interpreters with other hash seeds): all digests equal"
          % len(a))
    return 0


def main(which, n, jobs):
    if which == "determinism":
        return determinism(n, jobs)
    print("unknown selftest %r" % which)
    return 2
