"""Minimal RFC 6455 codec for the simulated client side and for decoding what
the server writes.  The server side (HTTP upgrade, framing, masking checks,
ping/pong, close handshake) is real autobahn code; this is the scripted peer.
"""
import base64
import json
import struct

OP_CONT, OP_TEXT, OP_BIN, OP_CLOSE, OP_PING, OP_PONG = 0, 1, 2, 8, 9, 10


def handshake_request(key_bytes):
    key = base64.b64encode(key_bytes).decode("ascii")
    return ("GET /v1 HTTP/1.1\r\n"
            "Host: sim:4000\r\n"
            "Upgrade: websocket\r\n"
            "Connection: Upgrade\r\n"
            "Sec-WebSocket-Key: %s\r\n"
            "Sec-WebSocket-Version: 13\r\n"
            "\r\n" % key).encode("ascii")


def encode_frame(opcode, payload, mask_key, fin=True):
    """Client->server frame (always masked)."""
    b0 = (0x80 if fin else 0) | opcode
    n = len(payload)
    if n < 126:
        hdr = struct.pack("!BB", b0, 0x80 | n)
    elif n < 65536:
        hdr = struct.pack("!BBH", b0, 0x80 | 126, n)
    else:
        hdr = struct.pack("!BBQ", b0, 0x80 | 127, n)
    mk = bytes(mask_key)
    # fast masking through big ints
    if n:
        reps = (n + 3) // 4
        m = (mk * reps)[:n]
        masked = (int.from_bytes(payload, "big") ^ int.from_bytes(m, "big")).to_bytes(n, "big")
    else:
        masked = b""
    return hdr + mk + masked


def encode_text(obj_or_bytes, mask_key):
    if isinstance(obj_or_bytes, (bytes, bytearray)):
        payload = bytes(obj_or_bytes)
    else:
        payload = json.dumps(obj_or_bytes).encode("utf-8")
    return encode_frame(OP_TEXT, payload, mask_key)


def encode_text_wire(obj_or_bytes, mask, wire):
    """the same text message as the client library of another vendor might put it on the wire:
    wire = {"frag": [fractions]} splits it into websocket fragments (TEXT fin=0, CONT ..., CONT fin=1),
    wire = {"ping": 1} lets a websocket ping travel first (between two fragments if both are given)"""
    if isinstance(obj_or_bytes, (bytes, bytearray)):
        payload = bytes(obj_or_bytes)
    else:
        payload = json.dumps(obj_or_bytes).encode("utf-8")
    cuts = sorted(set(max(1, min(len(payload) - 1, int(f * len(payload)))) for f in (wire.get("frag") or []))) \
        if len(payload) > 1 else []
    parts, pos = [], 0
    for cut in cuts + [len(payload)]:
        parts.append(payload[pos:cut])
        pos = cut
    out = []
    for i, part in enumerate(parts):
        op = OP_TEXT if i == 0 else OP_CONT
        out.append(encode_frame(op, part, mask(), fin=(i == len(parts) - 1)))
    if wire.get("ping"):
        out.insert(1 if len(out) > 1 else 0, encode_frame(OP_PING, b"keepalive", mask()))
    return b"".join(out)


class ServerStreamParser(object):
    """Incremental parser of the byte stream written by the server.

    First the HTTP response head, then unmasked websocket frames.
    feed() returns a list of events:
      ("http", status_line_bytes)
      ("frame", opcode, payload_bytes)     complete (defragmented) messages
    """

    def __init__(self):
        self.buf = bytearray()
        self.in_http = True
        self.frag_op = None
        self.frag = bytearray()

    def feed(self, data):
        out = []
        self.buf += data
        while True:
            if self.in_http:
                i = self.buf.find(b"\r\n\r\n")
                if i < 0:
                    return out
                head = bytes(self.buf[:i])
                del self.buf[:i + 4]
                self.in_http = False
                out.append(("http", head.split(b"\r\n", 1)[0]))
                continue
            if len(self.buf) < 2:
                return out
            b0, b1 = self.buf[0], self.buf[1]
            n = b1 & 0x7F
            pos = 2
            if n == 126:
                if len(self.buf) < 4:
                    return out
                n = struct.unpack("!H", bytes(self.buf[2:4]))[0]
                pos = 4
            elif n == 127:
                if len(self.buf) < 10:
                    return out
                n = struct.unpack("!Q", bytes(self.buf[2:10]))[0]
                pos = 10
            if b1 & 0x80:
                raise ValueError("server sent a masked frame")
            if len(self.buf) < pos + n:
                return out
            payload = bytes(self.buf[pos:pos + n])
            del self.buf[:pos + n]
            fin = bool(b0 & 0x80)
            op = b0 & 0x0F
            if op in (OP_CLOSE, OP_PING, OP_PONG):
                out.append(("frame", op, payload))
                continue
            if op == OP_CONT:
                self.frag += payload
                if fin:
                    out.append(("frame", self.frag_op, bytes(self.frag)))
                    self.frag_op = None
                    self.frag = bytearray()
                continue
            if fin:
                out.append(("frame", op, payload))
            else:
                self.frag_op = op
                self.frag = bytearray(payload)
