/* LD_PRELOAD shim: kill the process (as kill -9 would) immediately before its
 * n-th file-system operation on files below $MWSIM_KILL_DIR.
 *
 *   MWSIM_KILL_DIR   directory prefix; only operations on paths below it count
 *   MWSIM_KILL_AT    n >= 1: _exit(137) right before the n-th counted operation
 *                    0 / unset: count only
 *   MWSIM_KILL_LOG   file that receives one line per counted operation
 *                    (record mode) - the last line number is the total
 *
 * Counted: write pwrite pwrite64 writev fsync fdatasync ftruncate ftruncate64
 *          rename renameat renameat2 unlink unlinkat sendfile copy_file_range
 *          and open/openat/creat with O_CREAT (file creation).
 * Built with:  clang -shared -fPIC -O1 -o killshim.so killshim.c -ldl
 */
#define _GNU_SOURCE
#include <dlfcn.h>
#include <fcntl.h>
#include <stdarg.h>
#include <stdio.h>
#include <stdlib.h>
#include <string.h>
#include <unistd.h>
#include <sys/types.h>
#include <sys/uio.h>

#define MAXFD 4096
static char tracked[MAXFD];
static const char *prefix = NULL;
static size_t prefix_len = 0;
static long kill_at = 0, counter = 0;
static int log_fd = -1;
static int inited = 0;

static ssize_t (*real_write)(int, const void *, size_t);

static void init(void) {
    if (inited) return;
    inited = 1;
    real_write = dlsym(RTLD_NEXT, "write");
    prefix = getenv("MWSIM_KILL_DIR");
    if (prefix) prefix_len = strlen(prefix);
    const char *k = getenv("MWSIM_KILL_AT");
    if (k) kill_at = atol(k);
    const char *l = getenv("MWSIM_KILL_LOG");
    if (l) {
        int (*ropen)(const char *, int, ...) = dlsym(RTLD_NEXT, "open");
        log_fd = ropen(l, O_WRONLY | O_CREAT | O_APPEND, 0644);
    }
}

static int below(const char *path) {
    if (!prefix || !path) return 0;
    if (path[0] == '/') return strncmp(path, prefix, prefix_len) == 0;
    /* a relative name: taken from the working directory (the server is started with one) */
    char cwd[4096];
    if (!getcwd(cwd, sizeof cwd)) return 0;
    size_t n = strlen(cwd);
    if (n >= prefix_len) return strncmp(cwd, prefix, prefix_len) == 0;
    /* cwd is an ancestor of the prefix: compare cwd/path */
    char full[8192];
    while (path[0] == '.' && path[1] == '/') path += 2;
    snprintf(full, sizeof full, "%s/%s", cwd, path);
    return strncmp(full, prefix, prefix_len) == 0;
}

static void op(const char *name, const char *detail) {
    counter++;
    if (log_fd >= 0) {
        char buf[512];
        int n = snprintf(buf, sizeof buf, "%ld %s %s\n", counter, name, detail ? detail : "");
        if (n > 0) real_write(log_fd, buf, (size_t)n);
    }
    if (kill_at > 0 && counter == kill_at) _exit(137);
}

static void fdop(const char *name, int fd) {
    if (fd >= 0 && fd < MAXFD && tracked[fd]) op(name, "");
}

/* ---- open family: track fds below the prefix; creation is an operation ---- */
#define OPEN_BODY(realname, call_with_mode, call_without)                      \
    init();                                                                    \
    mode_t mode = 0;                                                           \
    if (flags & (O_CREAT | O_TMPFILE)) {                                       \
        va_list ap; va_start(ap, flags); mode = va_arg(ap, mode_t); va_end(ap);\
    }                                                                          \
    int b = below(path);                                                       \
    if (b && (flags & O_CREAT) && access(path, F_OK) != 0) op(realname, path); \
    int fd = (flags & (O_CREAT | O_TMPFILE)) ? call_with_mode : call_without;  \
    if (fd >= 0 && fd < MAXFD) tracked[fd] = b ? 1 : 0;                        \
    return fd;

int open(const char *path, int flags, ...) {
    static int (*r)(const char *, int, ...);
    if (!r) r = dlsym(RTLD_NEXT, "open");
    OPEN_BODY("open(O_CREAT)", r(path, flags, mode), r(path, flags))
}
int open64(const char *path, int flags, ...) {
    static int (*r)(const char *, int, ...);
    if (!r) r = dlsym(RTLD_NEXT, "open64");
    OPEN_BODY("open(O_CREAT)", r(path, flags, mode), r(path, flags))
}
int openat(int dirfd, const char *path, int flags, ...) {
    static int (*r)(int, const char *, int, ...);
    if (!r) r = dlsym(RTLD_NEXT, "openat");
    OPEN_BODY("openat(O_CREAT)", r(dirfd, path, flags, mode), r(dirfd, path, flags))
}
int openat64(int dirfd, const char *path, int flags, ...) {
    static int (*r)(int, const char *, int, ...);
    if (!r) r = dlsym(RTLD_NEXT, "openat64");
    OPEN_BODY("openat(O_CREAT)", r(dirfd, path, flags, mode), r(dirfd, path, flags))
}
int close(int fd) {
    static int (*r)(int);
    if (!r) r = dlsym(RTLD_NEXT, "close");
    if (fd >= 0 && fd < MAXFD) tracked[fd] = 0;
    return r(fd);
}

/* ---- data and metadata operations on tracked fds ---- */
ssize_t write(int fd, const void *buf, size_t n) {
    init();
    fdop("write", fd);
    return real_write(fd, buf, n);
}
ssize_t pwrite(int fd, const void *buf, size_t n, off_t off) {
    static ssize_t (*r)(int, const void *, size_t, off_t);
    if (!r) r = dlsym(RTLD_NEXT, "pwrite");
    init(); fdop("pwrite", fd);
    return r(fd, buf, n, off);
}
ssize_t pwrite64(int fd, const void *buf, size_t n, off64_t off) {
    static ssize_t (*r)(int, const void *, size_t, off64_t);
    if (!r) r = dlsym(RTLD_NEXT, "pwrite64");
    init(); fdop("pwrite", fd);
    return r(fd, buf, n, off);
}
ssize_t writev(int fd, const struct iovec *iov, int cnt) {
    static ssize_t (*r)(int, const struct iovec *, int);
    if (!r) r = dlsym(RTLD_NEXT, "writev");
    init(); fdop("writev", fd);
    return r(fd, iov, cnt);
}
int fsync(int fd) {
    static int (*r)(int);
    if (!r) r = dlsym(RTLD_NEXT, "fsync");
    init(); fdop("fsync", fd);
    return r(fd);
}
int fdatasync(int fd) {
    static int (*r)(int);
    if (!r) r = dlsym(RTLD_NEXT, "fdatasync");
    init(); fdop("fdatasync", fd);
    return r(fd);
}
int ftruncate(int fd, off_t len) {
    static int (*r)(int, off_t);
    if (!r) r = dlsym(RTLD_NEXT, "ftruncate");
    init(); fdop("ftruncate", fd);
    return r(fd, len);
}
int ftruncate64(int fd, off64_t len) {
    static int (*r)(int, off64_t);
    if (!r) r = dlsym(RTLD_NEXT, "ftruncate64");
    init(); fdop("ftruncate", fd);
    return r(fd, len);
}
ssize_t sendfile(int out, int in, off_t *off, size_t n) {
    static ssize_t (*r)(int, int, off_t *, size_t);
    if (!r) r = dlsym(RTLD_NEXT, "sendfile");
    init(); fdop("sendfile", out);
    return r(out, in, off, n);
}
ssize_t sendfile64(int out, int in, off64_t *off, size_t n) {
    static ssize_t (*r)(int, int, off64_t *, size_t);
    if (!r) r = dlsym(RTLD_NEXT, "sendfile64");
    init(); fdop("sendfile", out);
    return r(out, in, off, n);
}
ssize_t copy_file_range(int in, off64_t *oi, int out, off64_t *oo, size_t n, unsigned int fl) {
    static ssize_t (*r)(int, off64_t *, int, off64_t *, size_t, unsigned int);
    if (!r) r = dlsym(RTLD_NEXT, "copy_file_range");
    init(); fdop("copy_file_range", out);
    return r(in, oi, out, oo, n, fl);
}

/* ---- name space operations ---- */
int rename(const char *a, const char *b) {
    static int (*r)(const char *, const char *);
    if (!r) r = dlsym(RTLD_NEXT, "rename");
    init();
    if (below(a) || below(b)) op("rename", b);
    return r(a, b);
}
int renameat(int ad, const char *a, int bd, const char *b) {
    static int (*r)(int, const char *, int, const char *);
    if (!r) r = dlsym(RTLD_NEXT, "renameat");
    init();
    if (below(a) || below(b)) op("rename", b);
    return r(ad, a, bd, b);
}
int renameat2(int ad, const char *a, int bd, const char *b, unsigned int fl) {
    static int (*r)(int, const char *, int, const char *, unsigned int);
    if (!r) r = dlsym(RTLD_NEXT, "renameat2");
    init();
    if (below(a) || below(b)) op("rename", b);
    return r(ad, a, bd, b, fl);
}
int unlink(const char *p) {
    static int (*r)(const char *);
    if (!r) r = dlsym(RTLD_NEXT, "unlink");
    init();
    if (below(p)) op("unlink", p);
    return r(p);
}
int unlinkat(int d, const char *p, int fl) {
    static int (*r)(int, const char *, int);
    if (!r) r = dlsym(RTLD_NEXT, "unlinkat");
    init();
    if (below(p)) op("unlink", p);
    return r(d, p, fl);
}
