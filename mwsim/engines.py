"""Engines: how one seed becomes one evaluation, per kind of check."""
from . import harness
from .harness import Engine, steps_hash
from .props import SINGLE
from .run import run_single
from . import minimize

COMMON_ASSUMPTIONS = [
    "SQLite's atomic commit and hot-journal recovery are trusted (crash = process death; no torn pages)",
    "one server process per database",
    "the client side is a scripted RFC 6455 peer, not the magic-wormhole client library",
    "sampling: a clean batch is evidence, not proof",
]


class SingleEngine(Engine):
    """one world, full model comparison, the property's own slice decides"""

    def __init__(self, pid):
        self.pid = pid
        self.spec = SINGLE[pid]
        self.rule = self.spec["rule"]
        self.level = self.spec.get("level", "exploration")
        self.assumptions = COMMON_ASSUMPTIONS

    def runs(self, tier):
        q, t = self.spec["runs"]
        return q if tier == "quick" else t

    def _summary(self, res, seed, keep_spec):
        viol = [v for v in res.violations if v["prop"] == self.pid]
        h = steps_hash(res.steps, res.cfg)
        s = {
            "seed": seed, "viol": viol, "hash": h, "digest": res.digest,
            "nontrivial": bool(self.spec["nontrivial"](res)),
            "counters": res.counters, "probes": res.probes, "events": res.n_events,
            "steps": len(res.steps), "sim": res.sim_seconds,
            "shapes": set(hash(x) & 0xffffffff for x in res.shapes),
            "trans": set(hash(x) & 0xffffffff for x in res.transitions),
            "extra": {"c09_" + k: v for k, v in res.c09.items()},
        }
        if viol or keep_spec:
            s["spec"] = res.spec()
        return s

    def evaluate(self, seed, tier):
        res = run_single(seed, self.spec["prof"], props={self.pid})
        return self._summary(res, seed, keep_spec=(seed % 400 == 0))

    def respec(self, seed, tier):
        return run_single(seed, self.spec["prof"], props={self.pid}).spec()

    def replay(self, spec):
        res = run_single(spec.get("seed", 0), spec=spec, props={self.pid})
        return [v for v in res.violations if v["prop"] == self.pid]

    def minimise(self, spec, v):
        clause = v["clause"]

        def fails(steps):
            s2 = dict(spec, steps=steps)
            try:
                return any(x["clause"] == clause and x.get("sig") == v.get("sig") for x in self.replay(s2))
            except Exception:
                return False
        steps = minimize.ddmin(spec["steps"], fails)
        steps = minimize.simplify_steps(steps, fails)
        out = dict(spec, steps=steps)
        # simpler configuration if it still fails
        for key, val in (("autoping", False), ("blur", None), ("motd", None), ("advertise_version", None),
                         ("signal_error", None)):
            if out["cfg"].get(key) not in (val, None) or (key == "autoping" and out["cfg"].get(key)):
                cfg2 = dict(out["cfg"])
                cfg2[key] = val
                s2 = dict(out, cfg=cfg2)
                try:
                    if any(x["clause"] == clause for x in self.replay(s2)):
                        out = s2
                except Exception:
                    pass
        if out.get("rng_modes", {}).get("choice") not in (None, "faithful"):
            s2 = dict(out, rng_modes={"choice": "min", "randrange": "faithful"})
            try:
                if any(x["clause"] == clause for x in self.replay(s2)):
                    out = s2
            except Exception:
                pass
        return out

    def extra_evidence(self, agg):
        if self.pid != "C09":
            return {}
        return {"frames_checked": agg["extra"].get("c09_frames", 0),
                "data_frames_checked": agg["extra"].get("c09_data_frames", 0),
                "frames_with_open_transaction": agg["extra"].get("c09_in_txn", 0),
                "full_reader_comparisons": agg["extra"].get("c09_full_compares", 0)}


def get_engine(pid):
    if pid in SINGLE:
        return SingleEngine(pid)
    from . import paired
    if pid in paired.ENGINES:
        return paired.ENGINES[pid]()
    if pid in ("C19", "C20"):
        from . import dbsim
        return dbsim.C19Engine() if pid == "C19" else dbsim.C20Engine()
    if pid == "C10":
        from . import crash
        return crash.C10Engine()
    raise KeyError(pid)


def available():
    from . import paired
    return sorted(set(SINGLE) | set(paired.ENGINES) | {"C10", "C19", "C20"})
