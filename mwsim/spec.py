"""Reference transition function (DESIGN.md Appendix A): a small executable
model of the protocol on plain dicts.  No SQL, no server objects.

State form ("ms"):
  nps: {(app, name): {"mailbox": id, "sides": [[side, claimed, added], ...]}}
  mbs: {(app, id):   {"updated": t, "for_np": bool,
                      "sides": [[side, opened, added, mood], ...],   arrival order
                      "msgs":  [[side, phase, body, msg_id, server_rx], ...]}}
  orphans: [...]   message rows without mailbox (only carried along)
"""
import copy
import json
import re

EXPIRY = 660.0     # documented channel expiration time (11 min) - spec constant
PERIOD = 300.0     # documented sweep period (5 min) - spec constant

NAMEPLATE_RE = re.compile(r"^[1-9][0-9]*$")


def to_ms(chan):
    nps = {}
    dup = []
    for n in chan.nameplates:
        k = (n.app, n.name)
        if k in nps:
            dup.append(k)
            continue
        nps[k] = {"mailbox": n.mailbox, "sides": [[s.side, s.flag, s.added] for s in n.sides]}
    mbs = {}
    for m in chan.mailboxes:
        k = (m.app, m.id)
        if k in mbs:
            dup.append(k)
            continue
        mbs[k] = {"updated": m.updated, "for_np": m.for_nameplate,
                  "sides": [[s.side, s.flag, s.added, s.mood] for s in m.sides],
                  "msgs": [list(x) for x in m.msgs]}
    return {"nps": nps, "mbs": mbs, "orphans": [list(x) for x in chan.orphan_msgs], "dup": dup}


def num(x):
    """SQLite stores an integral REAL in an INTEGER-affinity column as an
    integer: 5.0 and 5 are the same stored value"""
    if isinstance(x, float) and x.is_integer():
        return int(x)
    return x


def norm(o):
    if isinstance(o, float):
        return num(o)
    if isinstance(o, (list, tuple)):
        return [norm(x) for x in o]
    return o


def clone(ms):
    return copy.deepcopy(ms)


def canon_nps(ms, app=None, drop_sides=()):
    out = []
    for (a, name), n in ms["nps"].items():
        if app is not None and a != app:
            continue
        sides = [s for s in n["sides"] if (a, name, s[0]) not in drop_sides]
        out.append(norm([a, name, n["mailbox"], sides]))
    return json.dumps(sorted(out, key=json.dumps), sort_keys=True)


def canon_mbs(ms, app=None, with_updated=True):
    out = []
    for (a, mid), m in ms["mbs"].items():
        if app is not None and a != app:
            continue
        out.append(norm([a, mid, m["updated"] if with_updated else None, m["for_np"], m["sides"],
                         sorted(norm(m["msgs"]), key=json.dumps)]))
    return json.dumps(sorted(out, key=json.dumps), sort_keys=True)


def canon_all(ms):
    return canon_nps(ms) + "|" + canon_mbs(ms) + "|" + json.dumps(sorted(ms["orphans"], key=json.dumps))


def side_row(rows, side):
    for r in rows:
        if r[0] == side:
            return r
    return None


def first_two(rows):
    out = []
    for r in rows:
        if r[0] not in out:
            out.append(r[0])
        if len(out) == 2:
            break
    return out


# --------------------------------------------------------------- transitions

def open_apply(ms, app, mid, side, now, for_np=False, per_app=False):
    """Open semantics.  Returns 'ok' | 'crowded' | 'foreign' (id lives in another app;
    with per_app the id is scoped per app as the protocol document says)."""
    k = (app, mid)
    mb = ms["mbs"].get(k)
    if mb is None:
        if not per_app and any(kk[1] == mid for kk in ms["mbs"]):
            return "foreign"
        mb = {"updated": now, "for_np": for_np, "sides": [], "msgs": []}
        ms["mbs"][k] = mb
    if side_row(mb["sides"], side) is None:
        mb["sides"].append([side, True, now, None])
    mb["updated"] = now
    if side not in first_two(mb["sides"]):
        return "crowded"
    return "ok"


def claim_apply(ms, app, name, side, now, fresh_id):
    """Claim semantics.  Returns (outcome, mailbox id).
    outcome: ok | reclaimed | crowded | crowded_np_only | crowded_mb_only | foreign"""
    k = (app, name)
    n = ms["nps"].get(k)
    if n is not None:
        r = side_row(n["sides"], side)
        if r is not None and not r[1]:
            return "reclaimed", n["mailbox"]
        mid = n["mailbox"]
        if r is None:
            n["sides"].append([side, True, now])
    else:
        mid = fresh_id
        if mid is None:
            return "nofresh", None
        if (app, mid) not in ms["mbs"]:
            if any(kk[1] == mid for kk in ms["mbs"]):
                return "foreign", mid
            ms["mbs"][(app, mid)] = {"updated": now, "for_np": True, "sides": [], "msgs": []}
        n = {"mailbox": mid, "sides": [[side, True, now]]}
        ms["nps"][k] = n
    o = open_apply(ms, app, mid, side, now, for_np=True)
    if o == "foreign":
        return "foreign", mid
    crowded_np = side not in first_two(n["sides"])
    crowded_mb = (o == "crowded")
    if crowded_np and crowded_mb:
        return "crowded", mid
    if crowded_mb:
        return "crowded_mb_only", mid
    if crowded_np:
        return "crowded_np_only", mid
    return "ok", mid


def release_apply(ms, app, name, side, now):
    """Release semantics.  Returns list of retired nameplates [(app, name, side rows)]."""
    k = (app, name)
    n = ms["nps"].get(k)
    if n is None:
        return []
    r = side_row(n["sides"], side)
    if r is None:
        return []
    r[1] = False
    if any(s[1] for s in n["sides"]):
        return []
    del ms["nps"][k]
    return [(app, name, n["sides"])]


def close_apply(ms, app, mid, side, mood, now):
    """Close semantics (after open semantics made sure the rows exist).
    Returns (retired_mailboxes, retired_nameplates)."""
    k = (app, mid)
    mb = ms["mbs"].get(k)
    if mb is None:
        return [], []
    r = side_row(mb["sides"], side)
    if r is None:
        return [], []
    r[1] = False
    r[3] = mood
    if any(s[1] for s in mb["sides"]):
        return [], []
    return delete_mailbox(ms, app, mid)


def delete_mailbox(ms, app, mid):
    mb = ms["mbs"].pop((app, mid))
    rn = []
    for (a, name), n in list(ms["nps"].items()):
        if a == app and n["mailbox"] == mid:
            del ms["nps"][(a, name)]
            rn.append((a, name, n["sides"]))
    return [(app, mid, mb)], rn


def add_apply(ms, app, mid, side, phase, body, msg_id, now):
    mb = ms["mbs"].get((app, mid))
    if mb is None:
        return False
    mb["msgs"].append([side, phase, body, msg_id, now])
    mb["updated"] = now
    return True


# ------------------------------------------------------------ usage records

def np_usage(side_rows, when, pruned, blur):
    times = sorted(r[2] for r in side_rows)
    if not times:
        return None
    started = times[0]
    if blur:
        started = blur * (started // blur)
    waiting = (times[1] - times[0]) if len(times) > 1 else None
    total = when - times[0]
    result = "lonely"
    if len(times) == 2:
        result = "happy"
    if pruned:
        result = "pruney"
    if len(times) > 2:
        result = "crowded"
    return [started, waiting, total, result]


def mb_usage(side_rows, when, pruned, blur):
    """side_rows: [side, opened, added, mood].  Documented precedence: crowded,
    then pruney, then scary, errory, lonely (by mood), else happy/lonely by sides."""
    times = sorted(r[2] for r in side_rows)
    if not times:
        return None
    started = times[0]
    if blur:
        started = blur * (started // blur)
    waiting = (times[1] - times[0]) if len(times) > 1 else None
    total = when - times[0]
    n = len(times)
    moods = [r[3] for r in side_rows if r[3]]
    if n > 2:
        result = "crowded"
    elif pruned:
        result = "pruney"
    elif "scary" in moods:
        result = "scary"
    elif "errory" in moods:
        result = "errory"
    elif "lonely" in moods:
        result = "lonely"
    elif n == 1:
        result = "lonely"
    else:
        result = "happy"
    return [started, waiting, total, result]


# ------------------------------------------------------------- validation

def validate(cm, msg):
    """Appendix A 'refused when' column.  cm: ConnModel.
    Returns ("noack",) | ("error", why, zone) | ("ok", kind, arg)"""
    if "type" not in msg:
        return ("noack",)
    t = msg["type"]
    if t == "ping":
        if "ping" not in msg:
            return ("error", "ping-without-ping", False)
        return ("ok", "ping", msg["ping"])
    if t == "bind":
        if cm.bound is not None:
            return ("error", "already-bound", False)
        if "appid" not in msg:
            return ("error", "bind-without-appid", False)
        if "side" not in msg:
            return ("error", "bind-without-side", False)
        if not isinstance(msg["appid"], str) or not isinstance(msg["side"], str):
            # outside the input domain (identifiers are strings): the server may refuse, drop
            # the connection or accept - but an accepted value is an identity of its own
            return ("ok", "oodbind", (msg["appid"], msg["side"]))
        return ("ok", "bind", (msg["appid"], msg["side"]))
    if cm.bound is None:
        return ("error", "not-bound", False)
    if t == "list":
        return ("ok", "list", None)
    if t == "allocate":
        if cm.allocated:
            return ("error", "second-allocate", False)
        return ("ok", "allocate", None)
    if t == "claim":
        if "nameplate" not in msg:
            return ("error", "claim-without-nameplate", False)
        if cm.claimed:
            # (C17 counts commands, not successes: a claim after a refused claim is a second claim)
            return ("error", "second-claim", False)
        return ("ok", "claim", msg["nameplate"])
    if t == "release":
        if cm.released:
            return ("error", "second-release", False)
        if "nameplate" in msg:
            if cm.np is not None and msg["nameplate"] != cm.np:
                return ("error", "release-mismatch", cm.claim_refused)
            return ("ok", "release", msg["nameplate"])
        if cm.np is None:
            return ("error", "release-without-claim", False)
        return ("ok", "release", cm.np)
    if t == "open":
        if cm.held:
            return ("error", "second-open", cm.stale)
        if "mailbox" not in msg:
            return ("error", "open-without-mailbox", False)
        return ("ok", "open", msg["mailbox"])
    if t == "add":
        if not cm.held:
            return ("error", "add-without-open", False)
        if "phase" not in msg:
            return ("error", "add-without-phase", cm.stale)
        if "body" not in msg:
            return ("error", "add-without-body", cm.stale)
        return ("ok", "add", None)
    if t == "close":
        if cm.closed:
            return ("error", "second-close", False)
        if "mailbox" in msg:
            if cm.named is not None and msg["mailbox"] != cm.named:
                return ("error", "close-mismatch", cm.open_refused)
            return ("ok", "close", msg["mailbox"])
        if cm.named is None:
            return ("error", "close-without-open", False)
        return ("ok", "close", cm.named)
    return ("error", "unknown-type", False)


class ConnModel(object):
    """Per-connection protocol state, derived from commands and answers only."""

    def __init__(self, cid, inc):
        self.id = cid
        self.inc = inc
        self.alive = True
        self.bound = None          # (app, side)
        self.allocated = False
        self.claimed = False
        self.claim_refused = False
        self.lingering = False
        self.np = None
        self.released = False
        self.named = None
        self.open_refused = False
        self.held = False          # has a mailbox handle (= subscribed unless stale)
        self.stale = False         # the mailbox was deleted under this handle
        self.uncertain = False     # went through an unspecified zone
        self.closed = False
        self.stalled = False

    @property
    def app(self):
        return self.bound[0] if self.bound else None

    @property
    def side(self):
        return self.bound[1] if self.bound else None
