"""Seeded, state-aware step generator (swarm style: every run draws its own
configuration, operation mix, fault kinds and time-step distribution)."""
import copy
import json

from .seams import make_rng
from .spec import EXPIRY, PERIOD

APPS = ["appA", "appB", "appC"]
SIDES = ["s1", "s2", "s3", "s4"]
NAMES = ["1", "2", "7", "42", "007", "np-x", "１２"]
MOODS = ["happy", "lonely", "scary", "errory", "weirdé", None, "ABSENT", "happy", "lonely", "scary", "errory",
         "crowded", "pruney", "quiet", "Happy", ""]
UNICODE = ["", "\u0000x", "nul\u0000", "\U0001F600", "é", "‮RTL", "퟿", "x" * 300,
           "\"quote\\", "a b\tc\n", "￿", "y" * 70000,
           "e\u0301", "\u212b", "ﬁ", " lead", "trail ", "MiXeD", "ß", "İ", "0", "00", "-1", "1e3", "null", "true", "²", "①", "٣", "Ⅷ"]

BASE = {
    "napps": (1, 3), "nsides": (2, 4), "steps": (8, 40),
    "usage_p": 0.5, "blur": [None, None, 7, 60, 61, 3600], "allow_list_p": 0.8,
    "autoping_p": 0.25, "welcome_p": 0.2, "share_ids_p": 0.0, "unicode_p": 0.1,
    "choice_modes": ["faithful", "faithful", "min", "max", "keyed"],
    "randrange_modes": ["faithful"],
    "quiesce_p": 0.0, "max_conns": 8, "names": 5, "literal_ids": 2,
    "seg_p": 0.1, "batch_p": 0.15, "hold_p": 0.03,
    "w": {
        "connect": 7, "connect_unbound": 0.3, "allocate": 3, "claim": 6, "release": 4, "list": 2,
        "open": 7, "add": 8, "close": 5, "drop": 2.5, "reconnect": 3, "ping": 0.7,
        "adv_small": 4, "adv_min": 2, "adv_sweep": 1.5, "adv_phase": 0.7, "adv_long": 0.4,
        "restart": 0.8, "kill": 0.3, "bad": 0.8, "stall": 0.2, "jump": 0.0, "dbfault": 0.0,
        "persona": 1.5, "bulk": 0.0, "third": 0.5, "resend": 1.0, "split": 0.2, "idle_sub": 0.2, "late_claim": 0.1, "reuse": 0.15, "exhaust": 0.0, "dormant": 0.05, "boundary": 0.05, "revenant": 0.05, "foreign": 0.05, "volume": 0.06, "overlap": 0.1,
    },
}


def profile(**over):
    p = copy.deepcopy(BASE)
    w = over.pop("w", {})
    p.update(over)
    p["w"].update(w)
    return p


PROFILES = {
    "default": profile(),
    "C01": profile(crash_p=0.008, unicode_p=0.3, literal_ids=2, share_ids_p=0.06, jumps=[-30.0, -2.0, -0.5, 0.5, 30.0],
                   w={"add": 14, "open": 10, "drop": 4, "reconnect": 5, "adv_phase": 1.2, "adv_long": 0.8,
                      "restart": 1.5, "kill": 0.6, "close": 6, "reuse": 1.5, "jump": 0.4, "boundary": 1.0, "revenant": 0.5, "volume": 0.4}),
    "C02": profile(crash_p=0.008, nsides=(2, 3), autoping_p=0.4, names=2, literal_ids=1, napps=(1, 2), share_ids_p=0.06, unicode_p=0.25, big_p=0.02,
                   jumps=[-30.0, -2.0, -0.5, 0.5, 30.0],
                   w={"volume": 0.4, "overlap": 0.5, "jump": 0.5, "add": 14, "open": 10, "connect": 10, "adv_sweep": 3, "restart": 2.0, "kill": 0.6,
                      "stall": 0.6, "reconnect": 5, "close": 3, "release": 2, "persona": 1, "split": 2.0, "late_claim": 0.7, "reuse": 1.0}),
    "C03": profile(crash_p=0.012, names=3, w={"overlap": 1.5, "claim": 14, "allocate": 4, "release": 8, "restart": 1.5, "reconnect": 4, "late_claim": 2.0,
                               "resend": 3, "close": 5, "adv_long": 0.8, "add": 3}),
    "C04": profile(crash_p=0.008, allow_list_p=0.5, napps=(1, 2), case_app_p=0.3, choice_modes=["faithful", "min", "max", "keyed"],
                   randrange_modes=["faithful", "collide"], steps=(6, 30), names=6,
                   w={"allocate": 16, "bulk": 0.9, "exhaust": 1.2, "claim": 5, "release": 6, "connect": 10, "list": 3,
                      "adv_long": 0.5, "add": 2, "open": 2, "close": 3, "persona": 0.5}),
    "C05": profile(crash_p=0.012, nsides=(3, 4), names=2, literal_ids=1, napps=(1, 2), jumps=[-3600.0, -30.0, -1.0, 1.0, 30.0],
                   usage_p=0.3,
                   w={"third": 6, "jump": 0.5, "reuse": 1.5, "revenant": 1.5, "claim": 8, "open": 9, "close": 6, "release": 4, "reconnect": 5, "resend": 4,
                      "drop": 4, "restart": 1.0, "add": 6}),
    "C06": profile(slow_p=0.0, napps=(2, 3), names=2, literal_ids=2, share_ids_p=0.12, numeric_app_p=0.15, case_app_p=0.2,
                   w={"restart": 1.5, "adv_sweep": 1.5, "adv_long": 1.2, "connect_unbound": 1.5, "split": 1.5,
                      "late_claim": 1.0, "idle_sub": 0.5, "dormant": 1.2, "foreign": 0.3}),
    "C07": profile(crash_p=0.012, names=4, nsides=(2, 3),
                   w={"claim": 12, "allocate": 5, "release": 10, "list": 5, "close": 6, "open": 5, "add": 3,
                      "reconnect": 4, "resend": 2}),
    "C08": profile(crash_p=0.012, nsides=(2, 2), names=3,
                   w={"close": 12, "claim": 8, "open": 9, "release": 5, "add": 6, "reconnect": 6, "resend": 5,
                      "drop": 4, "persona": 3}),
    "C09": profile(crash_p=0.01, usage_p=0.6, w={"persona": 3, "adv_sweep": 2, "bad": 1.5, "idle_sub": 1.0}),
    "C12": profile(crash_p=0.012, autoping_p=0.5, steps=(12, 50), names=3, odd_app_p=0.15,
                   w={"volume": 0.3, "overlap": 1.0, "adv_phase": 5, "adv_sweep": 5, "adv_min": 4, "adv_long": 1.5, "stall": 0.8, "add": 8,
                      "open": 8, "restart": 1.0, "kill": 0.4, "drop": 3, "jump": 0.3, "close": 2, "release": 2, "split": 1.0, "idle_sub": 1.0, "late_claim": 1.0}),
    "C13": profile(crash_p=0.02, quiesce_p=1.0, steps=(8, 40), jumps=[0.5, 30.0, 700.0, 3600.0], share_ids_p=0.2, napps=(1, 3),
                   w={"dbfault": 0.8, "jump": 0.3, "adv_sweep": 2.5, "adv_long": 1.0, "third": 1.5, "reconnect": 4, "resend": 2,
                      "drop": 4, "close": 6, "foreign": 0.8}),
    "C15": profile(usage_p=1.0, nsides=(2, 4), steps=(10, 45),
                   w={"close": 9, "release": 7, "persona": 3, "adv_long": 1.2, "third": 1.5, "adv_sweep": 2,
                      "kill": 0.0, "bulk": 0.15}),
    "C16": profile(usage_p=1.0, blur=[1, 7, 60, 61, 100, 900, 3600, 86400], log_fd_p=0.2,
                   jumps=[-3600.0, -30.0, -2.0, 0.5, 30.0],
                   w={"close": 8, "release": 7, "persona": 3, "adv_long": 1.5, "adv_sweep": 2, "adv_small": 6, "jump": 0.6, "bulk": 0.15}),
    "C17": profile(unicode_p=0.5, welcome_p=0.7, share_ids_p=0.05, big_p=0.01,
                   w={"bad": 14, "connect_unbound": 2, "ping": 2, "third": 2.5, "list": 5, "reuse": 1.5}),
    "C10": profile(linger_p=0.0, slow_p=0.0, steps=(6, 22), usage_p=0.6, nsides=(2, 3), names=3, autoping_p=0.1, hold_p=0.0,
                   w={"claim": 9, "release": 7, "close": 8, "open": 7, "add": 5, "adv_sweep": 1.5, "adv_long": 1.0,
                      "restart": 0.3, "kill": 0.3, "persona": 2.5, "third": 0.8, "bad": 0.2, "stall": 0, "idle_sub": 1.5}),
    "C11": profile(napps=(1, 2), names=2, literal_ids=1, autoping_p=0.2,
                   w={"exhaust": 0.8, "restart": 2.5, "kill": 0.0, "adv_sweep": 3, "open": 9, "add": 9, "connect": 9, "reconnect": 5,
                      "adv_min": 3, "jump": 0, "dbfault": 0, "split": 2.0}),
    "C14": profile(nsides=(2, 4), names=3, hold_p=0.0, w={"resend": 0.0, "third": 3.0, "close": 7, "release": 6, "claim": 8,
                                               "open": 8, "restart": 0.5, "kill": 0.0}),
    "C18": profile(crash_p=0.015, allow_list_p=0.5, w={"list": 6, "allocate": 6, "adv_long": 1.0, "adv_sweep": 1.5}),
}


class GConn(object):
    def __init__(self, cid):
        self.id = cid
        self.alive = True
        self.app = None
        self.side = None
        self.allocated = False
        self.claimed = None      # name spec
        self.released = False
        self.opened = None       # mailbox spec
        self.closed = False
        self.stalled = False
        self.last_cmd = None


class Gen(object):
    def __init__(self, seed, prof):
        self.seed = seed
        self.p = prof
        r = self.rng = make_rng(seed, "gen")
        p = prof
        self.apps = APPS[:r.randint(*p["napps"])]
        if r.random() < p.get("numeric_app_p", 0.0):
            self.apps[-1] = "1"          # an application whose id looks like a number
        if r.random() < p.get("odd_app_p", 0.06):
            self.apps[0] = r.choice(["cafe\u0301.example/xfer", "\u212bpp", "app A", "ﬁle.app"])   # not NFC / not ASCII
        if len(self.apps) >= 2 and r.random() < p.get("case_app_p", 0.06):
            self.apps[1] = self.apps[0].swapcase()   # two applications whose ids differ in letter case only
        self.sides = SIDES[:r.randint(*p["nsides"])]
        self.names = NAMES[:max(1, p["names"])]
        self.nsteps = r.randint(*p["steps"])
        self.cfg = {
            "usage": r.random() < p["usage_p"],
            "blur": r.choice(p["blur"]),
            "allow_list": r.random() < p["allow_list_p"],
            "autoping": r.random() < p["autoping_p"],
            "wall_frac": r.choice([0.0, 0.37, 0.5, 0.999, 0.123456]),
        }
        if r.random() < p["welcome_p"]:
            self.cfg["motd"] = r.choice(["hello", "", "mötd"])
            if r.random() < 0.5:
                self.cfg["advertise_version"] = "0.12.0"
            if r.random() < 0.3:
                self.cfg["signal_error"] = "go away"
        if r.random() < p.get("log_fd_p", 0.05):
            self.cfg["log_fd"] = True
        self.rng_modes = {"choice": r.choice(p["choice_modes"]), "randrange": r.choice(p["randrange_modes"])}
        self.share_ids = r.random() < p["share_ids_p"]
        self.unicode = r.random() < p["unicode_p"]
        self.quiesce = r.random() < p["quiesce_p"]
        self.conns = {}
        self.last_add_by_side = {}
        self.big_done = False
        self.next_cid = 0
        self.counter = 0
        self.queue = []
        self.emitted = 0
        self.used_ids = []
        self.lingering = []      # connections whose close handshake is done but not their TCP teardown
        self.mboxes = {a: [] for a in self.apps}    # known mailbox specs per app
        self.nps = {a: [] for a in self.apps}       # known allocated-name specs per app
        for a in self.apps:
            for i in range(p["literal_ids"]):
                self.mboxes[a].append("mbx%d" % i if self.share_ids else "mbx-%s-%d" % (a, i))
        # per-run mix: drop some action kinds entirely, boost others
        self.w = dict(p["w"])
        for k in list(self.w):
            x = r.random()
            if x < 0.12 and k not in ("connect", "claim", "open", "add", "close"):
                self.w[k] = 0.0
            elif x > 0.85:
                self.w[k] *= 3

    # ------------------------------------------------------------------ util
    def uniq(self, prefix):
        self.counter += 1
        return "%s%d" % (prefix, self.counter)

    def s(self, base):
        """a string value; with the unicode option sometimes an unusual one"""
        if self.unicode:
            x = self.rng.random()
            if x < 0.3:
                return self.rng.choice(UNICODE) + base
            if x < 0.34:
                return self.rng.choice(["", "0", " ", "None", "false"])     # falsy-looking but legal
        return base

    def live(self):
        return [c for c in self.conns.values() if c.alive]

    def bound(self):
        return [c for c in self.live() if c.app is not None]

    def pick_w(self, items):
        tot = sum(w for _, w in items)
        x = self.rng.random() * tot
        for it, w in items:
            x -= w
            if x <= 0:
                return it
        return items[-1][0]

    def _send(self, c, m, **kw):
        st = {"op": "send", "c": c.id, "m": m}
        if self.rng.random() < self.p["seg_p"]:
            st["seg"] = [round(self.rng.random(), 3) for _ in range(self.rng.randint(1, 3))]
            if self.rng.random() < self.p.get("slow_p", 0.25):
                st["gap"] = self.rng.choice([0.3, 2.0, 7.5, 20.0])      # a stalling uplink
        if self.rng.random() < self.p.get("wire_p", 0.03):
            # websocket-level variety: the message in several fragments, a ping on the way
            w = {}
            if self.rng.random() < 0.8:
                w["frag"] = [round(self.rng.random(), 3) for _ in range(self.rng.randint(1, 3))]
            if not w or self.rng.random() < 0.3:
                w["ping"] = 1
            st["wire"] = w
        c.last_cmd = m
        return st

    def mid_of(self, extra=None):
        m = {}
        x = self.rng.random()
        if x < 0.5:
            m["id"] = self.uniq("i")
            self.used_ids.append(m["id"])
        elif x < 0.56 and self.used_ids:
            # ids are chosen by each client on its own: the same id again, from whatever connection
            m["id"] = self.rng.choice(self.used_ids)
        elif x < 0.58:
            m["id"] = self.rng.choice(["a1b2", "0", "", "1"])
        if extra and self.rng.random() < 0.1:
            m["junk"] = {"nested": [1, 2, {"x": None}]}
        return m

    # ------------------------------------------------------------- actions
    def a_connect(self, bind=True, app=None, side=None):
        c = GConn(self.next_cid)
        self.next_cid += 1
        self.conns[c.id] = c
        out = [{"op": "connect", "c": c.id}]
        if bind:
            c.app = app or self.rng.choice(self.apps)
            c.side = side or self.rng.choice(self.sides)
            m = {"type": "bind", "appid": c.app, "side": c.side}
            r = self.rng.random()
            if r < 0.4:
                m["client_version"] = [self.s("python"), "0.%d.0" % self.rng.randint(1, 20)]
            elif r < 0.45:
                m["client_version"] = ["py", "1", "extra"]
            m.update(self.mid_of())
            out.append(self._send(c, m))
        return c, out

    def a_allocate(self, c):
        c.allocated = True
        spec = {"ref": "allocated", "c": c.id}
        self.nps[c.app].append(spec)
        m = {"type": "allocate"}
        m.update(self.mid_of())
        return [self._send(c, m)]

    def name_for(self, c):
        r = self.rng.random()
        own = {"ref": "allocated", "c": c.id} if c.allocated else None
        if own is not None and r < 0.6:
            return own
        if self.nps[c.app] and r < 0.5:
            return self.rng.choice(self.nps[c.app])
        return self.s(self.rng.choice(self.names))

    def a_claim(self, c, name=None):
        name = name if name is not None else self.name_for(c)
        c.claimed = name
        spec = {"ref": "claimed", "c": c.id}
        if spec not in self.mboxes[c.app]:
            self.mboxes[c.app].append(spec)
        m = {"type": "claim", "nameplate": name}
        m.update(self.mid_of())
        return [self._send(c, m)]

    def a_release(self, c):
        c.released = True
        m = {"type": "release"}
        r = self.rng.random()
        if c.claimed is not None:
            if r < 0.4:
                m["nameplate"] = c.claimed
        else:
            m["nameplate"] = self.name_for(c)
        m.update(self.mid_of())
        return [self._send(c, m)]

    def mailbox_for(self, c):
        r = self.rng.random()
        if c.claimed is not None and r < 0.65:
            return {"ref": "claimed", "c": c.id}
        pool = self.mboxes[c.app]
        if pool and r < 0.72:
            # an id chosen by the client that contains (or is contained in) another id
            base = self.rng.choice(pool)
            return {"cat": self.rng.choice([["x-", base, "-x"], [base, "x"], ["x", base], [base, base]])}
        return self.rng.choice(pool) if pool else "mbx-x"

    def a_open(self, c, mb=None):
        mb = mb if mb is not None else self.mailbox_for(c)
        c.opened = mb
        m = {"type": "open", "mailbox": mb}
        m.update(self.mid_of())
        return [self._send(c, m)]

    def a_add(self, c):
        m = {"type": "add", "phase": self.s(self.rng.choice(["pake", "version", "0", "1"])),
             "body": self.s(self.uniq("b"))}
        prev = getattr(c, "last_add", None) or self.last_add_by_side.get((c.app, c.side))
        if prev is not None and self.rng.random() < 0.12:
            # a client that is not sure its message arrived sends it again (adds are not
            # idempotent: both copies must be stored, delivered and replayed)
            m["phase"], m["body"] = prev
        c.last_add = (m["phase"], m["body"])
        self.last_add_by_side[(c.app, c.side)] = c.last_add
        if self.rng.random() < self.p.get("big_p", 0.004) and not self.big_done:
            # a large (but legal) payload, once per run
            self.big_done = True
            m["body"] = self.uniq("B") + "f" * self.rng.choice([100000, 1200000, 2500000])
            if self.rng.random() < 0.5:
                # ... or one whose *frame* ends exactly at (or a few bytes below) a round size:
                # the answer that echoes it is a little longer than the command
                m["id"] = self.uniq("m")
                limit = self.rng.choice([65536, 1048576, 1048576])
                tag = self.uniq("B")
                over = len(json.dumps(dict(m, body=tag)).encode("utf-8"))
                m["body"] = tag + "f" * max(0, limit - over - self.rng.choice([0, 0, 1, 17, 60, 90]))
                return [self._send(c, m)]
        if self.rng.random() < 0.7:
            m["id"] = self.uniq("m")
        if self.rng.random() < 0.08:
            m["side"] = "bogus"
        return [self._send(c, m)]

    def a_close(self, c):
        c.closed = True
        m = {"type": "close"}
        mood = self.rng.choice(MOODS)
        if mood != "ABSENT":
            m["mood"] = mood
        if c.opened is not None:
            if self.rng.random() < 0.4:
                m["mailbox"] = c.opened
        else:
            m["mailbox"] = self.mailbox_for(c)
            c.opened = m["mailbox"]
        m.update(self.mid_of())
        return [self._send(c, m)]

    def a_drop(self, c, how=None):
        how = how or self.rng.choice(["abrupt", "abrupt", "clean"])
        if how == "clean" and self.rng.random() < self.p.get("linger_p", 0.5):
            # only the websocket close handshake now; the TCP teardown reaches the server later
            how = "closing"
            self.lingering.append(c.id)
        c.alive = False
        return [{"op": "drop", "c": c.id, "how": how}]

    def a_reconnect(self, old, resend=False):
        """a client that lost its connection comes back: same app and side,
        re-binds, usually re-opens its mailbox, may re-send its last command"""
        c, out = self.a_connect(app=old.app, side=old.side)
        if not old.closed and (old.opened is not None or old.claimed is not None) and self.rng.random() < 0.2:
            # gives up instead: only a close naming its mailbox (no claim, no open on this connection) ...
            c.closed = True
            c.opened = old.opened if old.opened is not None else {"ref": "claimed", "c": old.id}
            m = {"type": "close", "mailbox": c.opened}
            mood = self.rng.choice(MOODS)
            if mood != "ABSENT":
                m["mood"] = mood
            out.append(self._send(c, m))
            if old.claimed is not None and self.rng.random() < 0.6:
                # ... and somebody new claims the name
                others = [x for x in self.sides if x != old.side] or self.sides
                d, o = self.a_connect(app=old.app, side=self.rng.choice(others))
                out += o + self.a_claim(d, old.claimed)
            return out
        if old.opened is not None and not old.closed and self.rng.random() < 0.8:
            out += self.a_open(c, old.opened)
        if resend and old.last_cmd is not None and old.last_cmd.get("type") in ("claim", "release", "open", "close"):
            m = dict(old.last_cmd)
            t = m["type"]
            if t == "claim" and c.claimed is None:
                c.claimed = m["nameplate"]
                out.append(self._send(c, m))
            elif t == "release" and not c.released:
                c.released = True
                if "nameplate" not in m and old.claimed is not None:
                    m["nameplate"] = old.claimed
                if "nameplate" in m:
                    out.append(self._send(c, m))
            elif t == "open" and c.opened is None:
                c.opened = m["mailbox"]
                out.append(self._send(c, m))
            elif t == "close" and not c.closed:
                c.closed = True
                if "mailbox" not in m and old.opened is not None:
                    m["mailbox"] = old.opened
                if "mailbox" in m:
                    if c.opened is None:
                        c.opened = m["mailbox"]
                    out.append(self._send(c, m))
        return out

    def a_bad(self, c):
        """commands of the erroneous classes of C17, in whatever state c is in"""
        r = self.rng
        if c.app is None and "1" in self.apps and r.random() < 0.5:
            # outside the input domain: a number where a string belongs
            c.app = "1"
            c.side = r.choice(self.sides)
            return [{"op": "send", "c": c.id, "m": {"type": "bind", "appid": r.choice([1, 1.0, True]), "side": c.side}}]
        kinds = ["notype", "unknown", "ping-noping", "bind-again", "bind-noappid", "bind-noside",
                 "claim-noname", "second-allocate", "second-claim", "second-release", "second-close",
                 "open-held", "open-nomailbox", "release-mismatch", "close-mismatch", "add-noopen",
                 "add-nophase", "add-nobody", "release-noclaim", "close-noopen", "prebind"]
        k = r.choice(kinds)
        m = None
        if k == "notype":
            m = {"nope": 1, "id": self.uniq("i")}
        elif k == "unknown":
            m = {"type": r.choice(["frobnicate", "", "BIND", "welcome"])}
        elif k == "ping-noping":
            m = {"type": "ping"}
        elif k == "bind-again":
            m = {"type": "bind", "appid": r.choice(self.apps), "side": r.choice(self.sides)}
        elif k == "bind-noappid":
            m = {"type": "bind", "side": "s1"}
        elif k == "bind-noside":
            m = {"type": "bind", "appid": self.apps[0]}
        elif k == "claim-noname":
            m = {"type": "claim"}
        elif k == "second-allocate":
            m = {"type": "allocate"}
            if c.app is not None:
                if not c.allocated:
                    self.nps[c.app].append({"ref": "allocated", "c": c.id})
                c.allocated = True
        elif k == "second-claim":
            if c.app is None or c.claimed is None:
                return []
            m = {"type": "claim", "nameplate": self.name_for(c)}
        elif k == "second-release":
            if c.app is None or not c.released:
                return []
            m = {"type": "release", "nameplate": c.claimed if c.claimed is not None else "1"}
        elif k == "second-close":
            if c.app is None or not c.closed:
                return []
            m = {"type": "close", "mailbox": c.opened if c.opened is not None else "mbx-x"}
        elif k == "open-held":
            if c.app is None or c.opened is None or c.closed:
                return []
            m = {"type": "open", "mailbox": self.mailbox_for(c)}
        elif k == "open-nomailbox":
            m = {"type": "open"}
        elif k == "release-mismatch":
            if c.app is None or c.claimed is None or c.released:
                return []
            m = {"type": "release", "nameplate": r.choice(["", "0", " ", "other-" + self.uniq("n")])}
            if m["nameplate"] == c.claimed:
                return []
        elif k == "close-mismatch":
            if c.app is None or c.opened is None or c.closed:
                return []
            m = {"type": "close", "mailbox": r.choice(["", "0", " ", "other-" + self.uniq("x")])}
            if m["mailbox"] == c.opened:
                return []
        elif k == "add-noopen":
            if c.opened is not None and not c.closed:
                return []
            m = {"type": "add", "phase": "p", "body": self.uniq("b")}
        elif k == "add-nophase":
            m = {"type": "add", "body": self.uniq("b")}
        elif k == "add-nobody":
            m = {"type": "add", "phase": "p"}
        elif k == "release-noclaim":
            if c.claimed is not None:
                return []
            m = {"type": "release"}
        elif k == "close-noopen":
            if c.opened is not None:
                return []
            m = {"type": "close"}
        elif k == "prebind":
            if c.app is not None:
                return []
            m = {"type": r.choice(["list", "allocate", "claim", "open", "add", "close", "release"]),
                 "nameplate": "1", "mailbox": "mbx-x", "phase": "p", "body": "b"}
        if m is None:
            return []
        if "id" not in m and r.random() < 0.5:
            m["id"] = self.uniq("i")
        out = [{"op": "send", "c": c.id, "m": m}]
        if r.random() < 0.6:
            out.append({"op": "send", "c": c.id, "m": {"type": "ping", "ping": self.counter}})
        return out

    def a_persona(self):
        """the command sequence of a real wormhole client pair (or one half)"""
        r = self.rng
        app = r.choice(self.apps)
        s1, s2 = r.sample(self.sides, 2) if len(self.sides) >= 2 else (self.sides[0], self.sides[0])
        a, out = self.a_connect(app=app, side=s1)
        if r.random() < 0.6:
            out += self.a_allocate(a)
            name = {"ref": "allocated", "c": a.id}
        else:
            name = self.s(r.choice(self.names))
        out += self.a_claim(a, name)
        out += self.a_open(a, {"ref": "claimed", "c": a.id})
        out += self.a_add(a)
        if r.random() < 0.8:
            b, o2 = self.a_connect(app=app, side=s2)
            out += o2
            out += self.a_claim(b, name)
            out += self.a_open(b, {"ref": "claimed", "c": b.id})
            out += self.a_add(b)
            order = [(a, "release"), (b, "release"), (a, "add"), (b, "add"), (a, "close"), (b, "close")]
            cut = r.randint(0, len(order))
            for (c, what) in order[:cut]:
                out += getattr(self, "a_" + what)(c)
        return out

    def a_split(self):
        """two connections that bind in different sweep epochs and then share a
        mailbox: one binds, a sweep passes, the other binds, both open, both add"""
        r = self.rng
        app = r.choice(self.apps)
        pool = self.mboxes[app]
        mb = r.choice(pool) if pool else "mbx-x"
        sides = r.sample(self.sides, 2) if len(self.sides) >= 2 else [self.sides[0]] * 2
        if r.random() < 0.3:
            sides[1] = sides[0]
        a, out = self.a_connect(app=app, side=sides[0])
        out.append({"op": "advance", "to": "sweep", "eps": r.choice([0.001, 0.5, 5.0])})
        b, o2 = self.a_connect(app=app, side=sides[1])
        out += o2
        first, second = (a, b) if r.random() < 0.5 else (b, a)
        out += self.a_open(first, mb)
        out += self.a_open(second, mb)
        out += self.a_add(a)
        out += self.a_add(b)
        return out

    def a_idle_sub(self):
        """a client that stays subscribed but silent for longer than the expiry time
        (a sender waiting for its peer), then somebody does something"""
        r = self.rng
        app = r.choice(self.apps)
        a, out = self.a_connect(app=app, side=r.choice(self.sides))
        if r.random() < 0.6:
            out += self.a_claim(a)
            out += self.a_open(a, {"ref": "claimed", "c": a.id})
        else:
            out += self.a_open(a)
        if r.random() < 0.7:
            out += self.a_add(a)
        out.append({"op": "advance", "dt": round(r.uniform(680, 1500), 3)})
        x = r.random()
        if x < 0.4:
            out += self.a_add(a)
        elif x < 0.7:
            b, o2 = self.a_connect(app=app, side=r.choice(self.sides))
            out += o2
            out += self.a_open(b, a.opened)
        else:
            out += self.a_close(a)
        return out

    def a_late_claim(self):
        """a receiver that binds while its user types the code: bind, a sweep passes,
        then claim and open, a long wait, and the partner claims the same nameplate"""
        r = self.rng
        app = r.choice(self.apps)
        s1, s2 = r.sample(self.sides, 2) if len(self.sides) >= 2 else (self.sides[0], self.sides[0])
        x, out = self.a_connect(app=app, side=s1)
        out.append({"op": "advance", "to": "sweep", "eps": r.choice([0.5, 20.0])})
        name = self.name_for(x)
        out += self.a_claim(x, name)
        out += self.a_open(x, {"ref": "claimed", "c": x.id})
        if r.random() < 0.5:
            out += self.a_add(x)
        out.append({"op": "advance", "dt": round(r.uniform(30, 1500), 3)})
        y, o2 = self.a_connect(app=app, side=s2)
        out += o2
        out += self.a_claim(y, name)
        out += self.a_open(y, {"ref": "claimed", "c": y.id})
        out += self.a_add(y)
        return out

    def a_dormant(self):
        """two apps after a restart, one with records long abandoned and one in use; a client of the
        dormant app binds, a sweep passes, and only then do it and a partner start to talk"""
        r = self.rng
        if len(self.apps) < 2:
            return self.a_late_claim()
        dorm, busy = r.sample(self.apps, 2)
        out = [{"op": "bulk", "app": dorm, "side": "gone", "names": [r.choice(["3", "8", "21"])]}]
        # (abandoned long enough to expire at the sweep after next, or already at the next one)
        out.append({"op": "advance", "dt": round(r.uniform(365, 655) if r.random() < 0.7 else r.uniform(500, 1000), 3)})
        b, o = self.a_connect(app=busy)
        out += o + self.a_claim(b, self.name_for(b))
        if r.random() < 0.7:
            for c in self.conns.values():
                c.alive = False
            kill = self.p["w"].get("kill", 0) > 0 and r.random() < 0.3
            out.append({"op": "restart", "how": "kill" if kill else "clean"})
        s1, s2 = r.sample(self.sides, 2) if len(self.sides) >= 2 else (self.sides[0], self.sides[0])
        x, o = self.a_connect(app=dorm, side=s1)
        out += o
        out.append({"op": "advance", "to": "sweep", "eps": r.choice([0.5, 20.0])})
        name = self.name_for(x)
        out += self.a_claim(x, name) + self.a_open(x, {"ref": "claimed", "c": x.id})
        y, o = self.a_connect(app=dorm, side=s2)
        out += o + self.a_claim(y, name) + self.a_open(y, {"ref": "claimed", "c": y.id})
        out += self.a_add(y) + self.a_add(x)
        return out

    def a_boundary(self):
        """the last activity of a mailbox falls exactly (or a hair before / after) one expiry
        time before a sweep; everybody leaves; after that sweep the same id is used again"""
        r = self.rng
        app = r.choice(self.apps)
        lits = [m for m in self.mboxes[app] if isinstance(m, str)]
        mb = r.choice(lits) if lits and r.random() < 0.7 else None
        s1, s2 = r.sample(self.sides, 2) if len(self.sides) >= 2 else (self.sides[0], self.sides[0])
        a, out = self.a_connect(app=app, side=s1)
        name = None
        if mb is None:
            name = self.name_for(a)
            out += self.a_claim(a, name)
            mb = {"ref": "claimed", "c": a.id}
        out += self.a_open(a, mb)
        out.append({"op": "advance", "to": "phase",
                    "phase": round((PERIOD - (EXPIRY % PERIOD)) + r.choice([-0.001, 0.0, 0.0, 0.0, 0.001]), 4)})
        out += self.a_add(a)
        out += self.a_drop(a, "abrupt")
        out.append({"op": "advance", "dt": round(EXPIRY + r.choice([0.5, 5.0, 100.0]), 3)})
        b, o = self.a_connect(app=app, side=s2)
        out += o
        if name is not None and r.random() < 0.5:
            out += self.a_claim(b, name)
        out += self.a_open(b, mb)
        out += self.a_add(b)
        c, o = self.a_connect(app=app, side=s1)
        out += o + self.a_open(c, mb)
        return out

    def a_revenant(self):
        """two sides use a mailbox id and vanish; the sweep (or their closes) ends it; two other
        sides use the same id; then the old sides come back"""
        r = self.rng
        if len(self.sides) < 3:
            return self.a_reuse()
        app = r.choice(self.apps)
        lits = [m for m in self.mboxes[app] if isinstance(m, str)]
        mb = r.choice(lits) if lits else "mbx-x"
        sides = list(self.sides)
        r.shuffle(sides)
        old, new = sides[:2], (sides[2:4] if len(sides) >= 4 else [sides[2], sides[0]])
        out, oc = [], []
        for sd in old:
            c, o = self.a_connect(app=app, side=sd)
            out += o + self.a_open(c, mb)
            if r.random() < 0.6:
                out += self.a_add(c)
            oc.append(c)
        how = r.choice(["expire", "expire", "close"])
        for c in oc:
            if how == "close":
                out += self.a_close(c)
            out += self.a_drop(c, "abrupt")
        if how == "expire":
            out.append({"op": "advance", "dt": round(r.uniform(EXPIRY + PERIOD + 1, EXPIRY + 3 * PERIOD), 3)})
        for sd in new:
            c, o = self.a_connect(app=app, side=sd)
            out += o + self.a_open(c, mb) + self.a_add(c)
        for sd in old:
            c, o = self.a_connect(app=app, side=sd)
            out += o + self.a_open(c, mb)
        return out

    def a_overlap(self):
        """a side comes back on a second connection while the server still believes in the first
        (a half-dead socket): both claim and open; the old one is reaped only later; the new one
        then sits idle over several sweeps; finally the partner arrives"""
        r = self.rng
        app = r.choice(self.apps)
        s1, s2 = r.sample(self.sides, 2) if len(self.sides) >= 2 else (self.sides[0], self.sides[0])
        a1, out = self.a_connect(app=app, side=s1)
        if r.random() < 0.6:
            out += self.a_allocate(a1)
            name = {"ref": "allocated", "c": a1.id}
        else:
            name = self.name_for(a1)
        out += self.a_claim(a1, name) + self.a_open(a1, {"ref": "claimed", "c": a1.id})
        if r.random() < 0.5:
            out += self.a_add(a1)
        out.append({"op": "advance", "dt": round(r.uniform(5, 200), 3)})
        a2, o = self.a_connect(app=app, side=s1)
        out += o + self.a_claim(a2, name) + self.a_open(a2, {"ref": "claimed", "c": a2.id})
        out.append({"op": "advance", "dt": round(r.uniform(0.5, 60), 3)})
        out += self.a_drop(a1, r.choice(["abrupt", "clean"]))
        out.append({"op": "advance", "dt": round(r.uniform(700, 1500), 3)})
        b, o = self.a_connect(app=app, side=s2)
        out += o + self.a_claim(b, name) + self.a_open(b, {"ref": "claimed", "c": b.id}) + self.a_add(b)
        return out

    def a_foreign(self):
        """one mailbox id, two applications, overlapping lifetimes: two sides of one app use it,
        a client of another app opens the same id and stays, the first app's sides close, and
        only then does the other app's client add"""
        r = self.rng
        if len(self.apps) < 2:
            return self.a_reuse()
        one, two = r.sample(self.apps, 2)
        s1, s2 = r.sample(self.sides, 2) if len(self.sides) >= 2 else (self.sides[0], self.sides[0])
        a, out = self.a_connect(app=one, side=s1)
        if r.random() < 0.5:
            out += self.a_claim(a, self.name_for(a))
            mb = {"ref": "claimed", "c": a.id}
        else:
            mb = r.choice(["mbx0", "mbx1", "shared-id"])
        out += self.a_open(a, mb) + self.a_add(a)
        b, o = self.a_connect(app=one, side=s2)
        out += o + self.a_open(b, mb)
        if r.random() < 0.35:
            # the first app's users vanish and the sweep ends their mailbox; the second app then uses
            # the id, and a user of the first app comes back to it
            out += self.a_drop(a, "abrupt") + self.a_drop(b, "abrupt")
            out.append({"op": "advance", "dt": round(r.uniform(EXPIRY + PERIOD + 1, EXPIRY + 3 * PERIOD), 3)})
            x, o = self.a_connect(app=two, side=r.choice([s1, s2]))
            out += o + self.a_open(x, mb) + self.a_add(x)
            a2, o = self.a_connect(app=one, side=s1)
            out += o + self.a_open(a2, mb)
            y, o = self.a_connect(app=two, side=s2 if x.side == s1 else s1)
            out += o + self.a_open(y, mb) + self.a_add(y) + self.a_close(y) + self.a_close(x)
            return out
        x, o = self.a_connect(app=two, side=r.choice([s1, s2]))
        out += o + self.a_open(x, mb)
        order = [a, b]
        r.shuffle(order)
        for c in order:
            if c.claimed is not None and r.random() < 0.6:
                out += self.a_release(c)
            out += self.a_close(c)
        out += self.a_add(x)
        if r.random() < 0.5:
            out += self.a_close(x)
        return out

    def a_volume(self):
        """quantities well beyond the usual handful: many messages in one mailbox, many connections
        of the two sides subscribed at once, many sweeps passing over an idle subscriber"""
        r = self.rng
        app = r.choice(self.apps)
        s1, s2 = r.sample(self.sides, 2) if len(self.sides) >= 2 else (self.sides[0], self.sides[0])
        a, out = self.a_connect(app=app, side=s1)
        out += self.a_claim(a, self.name_for(a))
        mb = {"ref": "claimed", "c": a.id}
        out += self.a_open(a, mb)
        kind = r.choice(["messages", "connections", "sweeps", "mailboxes"])
        if kind == "mailboxes":
            # many channels of one app, each with a waiting (subscribed, silent) client, over sweeps
            n = r.choice([40, 101, 130])
            cs = []
            for i in range(n):
                c, o = self.a_connect(app=app, side=s1)
                out += o + self.a_open(c, "vol-%d" % i)
                cs.append(c)
            out.append({"op": "advance", "dt": round(r.uniform(700, 1300), 3)})
            for c in r.sample(cs, 4) + [cs[-1]]:
                b, o = self.a_connect(app=app, side=s2)
                out += o + self.a_open(b, c.opened) + self.a_add(b)
        elif kind == "messages":
            for _ in range(r.choice([17, 33, 65, 130])):
                out += self.a_add(a)
            b, o = self.a_connect(app=app, side=s2)
            out += o + self.a_open(b, mb) + self.a_add(b)
        elif kind == "connections":
            cs = []
            for i in range(r.choice([9, 17, 33])):
                c, o = self.a_connect(app=app, side=s2 if i % 2 else s1)
                out += o + self.a_open(c, mb)
                cs.append(c)
            out += self.a_add(a) + self.a_add(cs[-1])
            for c in cs[: len(cs) // 2]:
                out += self.a_drop(c, "abrupt")
            out += self.a_add(a)
        else:
            out += self.a_add(a)
            out.append({"op": "advance", "dt": round(r.uniform(3000, 12000), 3)})
            b, o = self.a_connect(app=app, side=s2)
            out += o + self.a_claim(b, a.claimed) + self.a_open(b, mb) + self.a_add(b)
        return out

    def a_reuse(self):
        """a mailbox id lives twice: one side on two connections, the last close comes over one of
        them, the other lingers; then other sides use the same id again"""
        r = self.rng
        app = r.choice(self.apps)
        lits = [m for m in self.mboxes[app] if isinstance(m, str)]
        mb = r.choice(lits) if lits else "mbx-x"
        sides = list(self.sides)
        r.shuffle(sides)
        a = sides[0]
        a1, out = self.a_connect(app=app, side=a)
        out += self.a_open(a1, mb)
        a2, o2 = self.a_connect(app=app, side=a)
        out += o2 + self.a_open(a2, mb)
        if r.random() < 0.5:
            out += self.a_add(a1)
        out += self.a_close(a2)
        later = sides[1:3] if len(sides) >= 3 else sides[:2]
        newc = []
        for sd in later:
            c, o = self.a_connect(app=app, side=sd)
            out += o + self.a_open(c, mb)
            newc.append(c)
        for c in newc:
            out += self.a_add(c)
        out += self.a_add(a1)
        x = r.random()
        if x < 0.3:
            # the lingering connection names something it never opened
            out.append({"op": "send", "c": a1.id, "m": {"type": "close", "mailbox": r.choice(["", "other-" + self.uniq("x")])}})
            out.append({"op": "send", "c": a1.id, "m": {"type": "ping", "ping": self.counter}})
        elif x < 0.6:
            out += self.a_close(a1)
        return out

    def a_exhaust(self):
        """a whole tier is taken, somebody allocates into the next one, the tier is freed
        by expiry (or releases), and somebody allocates again"""
        r = self.rng
        app = r.choice(self.apps)
        names = ["%d" % i for i in range(1, 10)]
        if r.random() < 0.3:
            names += ["%d" % i for i in range(10, 100)]
        out = [{"op": "bulk", "app": app, "side": "filler", "names": names}]
        a, o = self.a_connect(app=app)
        out += o + self.a_allocate(a)
        out.append({"op": "advance", "dt": round(r.uniform(700, 1500), 3)})
        b, o = self.a_connect(app=app)
        out += o + self.a_allocate(b)
        c, o = self.a_connect(app=app)
        out += o + self.a_allocate(c)
        return out

    def a_third(self):
        """a further side arrives at something two sides share"""
        cands = [c for c in self.bound() if c.opened is not None or c.claimed is not None]
        if not cands:
            return []
        t = self.rng.choice(cands)
        others = [s for s in self.sides if s != t.side]
        if not others:
            return []
        c, out = self.a_connect(app=t.app, side=self.rng.choice(others))
        if t.claimed is not None and self.rng.random() < 0.5:
            out += self.a_claim(c, t.claimed)
        else:
            out += self.a_open(c, t.opened if t.opened is not None else {"ref": "claimed", "c": t.id})
        if self.rng.random() < 0.35:
            # ... and, whatever it was told, tries something else on the same connection
            k = self.rng.choice(["claim", "claim", "release", "open", "close", "allocate"])
            if k == "claim":
                m = {"type": "claim", "nameplate": self.name_for(c)}
                m.update(self.mid_of())
                out.append(self._send(c, m))
            elif k == "release":
                out += self.a_release(c)
            elif k == "open":
                m = {"type": "open", "mailbox": self.mailbox_for(c)}
                m.update(self.mid_of())
                out.append(self._send(c, m))
            elif k == "close":
                out += self.a_close(c)
            else:
                out += self.a_allocate(c)
        return out

    # -------------------------------------------------------------- driver
    def time_step(self, kind):
        r = self.rng
        if kind == "adv_small":
            return {"op": "advance", "dt": round(r.choice([0.001, 0.25, 1.0, 3.5, 9.0]) * (0.5 + r.random()), 4)}
        if kind == "adv_min":
            return {"op": "advance", "dt": round(r.uniform(30, 280), 3)}
        if kind == "adv_long":
            return {"op": "advance", "dt": round(r.uniform(300, 1500), 3)}
        if kind == "adv_sweep":
            return {"op": "advance", "to": "sweep", "eps": r.choice([-0.5, -0.001, 0.0, 0.001, 0.5, 1.0])}
        # activity 660 s before some later sweep: phase 240 of the sweep period
        return {"op": "advance", "to": "phase",
                "phase": round((PERIOD - (EXPIRY % PERIOD)) + r.choice([-1.0, -0.001, 0.0, 0.001, 1.0]), 4)}

    def next(self):
        if self.queue:
            self.emitted += 1
            return self.queue.pop(0)
        if self.emitted >= self.nsteps:
            return None
        if self.lingering and self.rng.random() < 0.35:
            self.emitted += 1
            return {"op": "drop", "c": self.lingering.pop(0), "how": "finish"}
        steps = self._choose()
        if not steps:
            steps = [self.time_step("adv_small")]
        # sometimes the server process dies in the middle of the last command (before one of its
        # database calls) and is started again on what the files hold
        if self.w.get("kill", 0) > 0 and self.rng.random() < self.p.get("crash_p", 0.0):
            last = steps[-1]
            if last["op"] == "send" and isinstance(last.get("m"), dict) and \
                    last["m"].get("type") in ("claim", "release", "open", "add", "close", "allocate"):
                st = {"op": "crash", "c": last["c"], "m": last["m"], "after": self.rng.randint(1, 16)}
                if self.rng.random() < 0.3:
                    st["down"] = round(self.rng.choice([0.5, 30.0, 200.0, 700.0]) * (0.5 + self.rng.random()), 3)
                steps[-1] = st
                for c in self.conns.values():
                    c.alive = False
        # sometimes coalesce consecutive sends of one connection into one segment
        if len(steps) >= 2 and self.rng.random() < self.p["batch_p"]:
            steps = self._batchify(steps)
        # sometimes a command is delayed in flight: it reaches the server together
        # with the connection's next command, after other connections' commands
        if self.rng.random() < self.p["hold_p"]:
            for k, st in enumerate(steps):
                if st["op"] == "send" and "type" in st["m"] and st["m"]["type"] != "bind":
                    steps[k] = {"op": "hold", "c": st["c"], "ms": [st["m"]]}
                    break
        self.queue = steps[1:]
        self.emitted += 1
        return steps[0]

    def _batchify(self, steps):
        out = []
        for st in steps:
            if (out and st["op"] == "send" and out[-1]["op"] in ("send", "batch") and out[-1]["c"] == st["c"]
                    and "type" in st["m"] and (out[-1]["op"] == "batch" or "type" in out[-1]["m"])
                    and '"ref"' not in json.dumps(st["m"])):
                # (a value the server has yet to tell cannot travel in the same segment)
                prev = out[-1]
                if prev["op"] == "send":
                    prev = {"op": "batch", "c": prev["c"], "ms": [prev["m"]]}
                    out[-1] = prev
                prev["ms"].append(st["m"])
            else:
                out.append(dict(st))
        return out

    def _choose(self):
        w = self.w
        r = self.rng
        live = self.live()
        bound = self.bound()
        acts = []
        if len(live) < self.p["max_conns"]:
            acts.append(("connect", w["connect"] * (3.0 if len(bound) < 2 else 1.0)))
            acts.append(("connect_unbound", w["connect_unbound"]))
            acts.append(("persona", w["persona"]))
            acts.append(("third", w["third"]))
            acts.append(("split", w.get("split", 0)))
            acts.append(("idle_sub", w.get("idle_sub", 0)))
            acts.append(("late_claim", w.get("late_claim", 0)))
            acts.append(("reuse", w.get("reuse", 0)))
            acts.append(("exhaust", w.get("exhaust", 0)))
            acts.append(("dormant", w.get("dormant", 0)))
            acts.append(("boundary", w.get("boundary", 0)))
            acts.append(("revenant", w.get("revenant", 0)))
            acts.append(("foreign", w.get("foreign", 0)))
            acts.append(("volume", w.get("volume", 0)))
            acts.append(("overlap", w.get("overlap", 0)))
            dead = [c for c in self.conns.values() if not c.alive and c.app is not None]
            if dead:
                acts.append(("reconnect", w["reconnect"]))
                acts.append(("resend", w["resend"]))
        if bound:
            acts += [("allocate", w["allocate"]), ("claim", w["claim"]), ("release", w["release"]),
                     ("list", w["list"]), ("open", w["open"]), ("add", w["add"]), ("close", w["close"])]
        if live:
            acts += [("drop", w["drop"]), ("ping", w["ping"]), ("bad", w["bad"]), ("stall", w["stall"])]
        acts += [(k, w[k]) for k in ("adv_small", "adv_min", "adv_sweep", "adv_phase", "adv_long")]
        acts += [("restart", w["restart"]), ("kill", w["kill"]), ("jump", w["jump"]), ("dbfault", w["dbfault"]),
                 ("bulk", w["bulk"])]
        acts = [(a, x) for a, x in acts if x > 0]
        for _ in range(8):
            a = self.pick_w(acts)
            out = self._do(a, live, bound)
            if out:
                return out
        return []

    def _do(self, a, live, bound):
        r = self.rng
        if a == "connect":
            return self.a_connect()[1]
        if a == "connect_unbound":
            c, out = self.a_connect(bind=False)
            return out + self.a_bad(c)
        if a == "persona":
            return self.a_persona()
        if a == "third":
            return self.a_third()
        if a == "split":
            return self.a_split()
        if a == "idle_sub":
            return self.a_idle_sub()
        if a == "late_claim":
            return self.a_late_claim()
        if a == "reuse":
            return self.a_reuse()
        if a == "exhaust":
            return self.a_exhaust()
        if a == "dormant":
            return self.a_dormant()
        if a == "boundary":
            return self.a_boundary()
        if a == "revenant":
            return self.a_revenant()
        if a == "foreign":
            return self.a_foreign()
        if a == "volume":
            return self.a_volume()
        if a == "overlap":
            return self.a_overlap()
        if a in ("reconnect", "resend"):
            dead = [c for c in self.conns.values() if not c.alive and c.app is not None]
            return self.a_reconnect(r.choice(dead), resend=(a == "resend"))
        if a == "allocate":
            cs = [c for c in bound if not c.allocated]
            return self.a_allocate(r.choice(cs)) if cs else []
        if a == "claim":
            cs = [c for c in bound if c.claimed is None]
            return self.a_claim(r.choice(cs)) if cs else []
        if a == "release":
            cs = [c for c in bound if not c.released and (c.claimed is not None or r.random() < 0.15)]
            return self.a_release(r.choice(cs)) if cs else []
        if a == "list":
            m = {"type": "list"}
            m.update(self.mid_of())
            return [self._send(r.choice(bound), m)]
        if a == "open":
            cs = [c for c in bound if c.opened is None]
            again = [c for c in bound if c.opened is not None and c.closed]
            if again and r.random() < 0.12:
                # the same connection opens again after its own close (the server allows it)
                c = r.choice(again)
                c.closed = False
                return self.a_open(c, c.opened if r.random() < 0.7 else None)
            return self.a_open(r.choice(cs)) if cs else []
        if a == "add":
            cs = [c for c in bound if c.opened is not None and not c.closed]
            return self.a_add(r.choice(cs)) if cs else []
        if a == "close":
            cs = [c for c in bound if not c.closed and (c.opened is not None or r.random() < 0.2)]
            return self.a_close(r.choice(cs)) if cs else []
        if a == "drop":
            c = r.choice(live)
            out = self.a_drop(c)
            if r.random() < 0.3 and c.last_cmd is not None:
                pass
            return out
        if a == "ping":
            self.counter += 1
            return [{"op": "send", "c": r.choice(live).id, "m": {"type": "ping", "ping": self.counter}}]
        if a == "bad":
            return self.a_bad(r.choice(live))
        if a == "stall":
            c = r.choice(live)
            if c.stalled:
                c.stalled = False
                return [{"op": "drop", "c": c.id, "how": "unstall"}]
            c.stalled = True
            return [{"op": "drop", "c": c.id, "how": "stall"}]
        if a.startswith("adv_"):
            return [self.time_step(a)]
        if a in ("restart", "kill"):
            for c in self.conns.values():
                c.alive = False
            st = {"op": "restart", "how": "clean" if a == "restart" else "kill"}
            if r.random() < 0.4:
                st["down"] = round(r.choice([0.5, 30.0, 200.0, 700.0]) * (0.5 + r.random()), 3)
            return [st]
        if a == "jump":
            return [{"op": "jump", "d": r.choice(self.p.get("jumps", [-3600.0, -30.0, -0.5, 0.5, 30.0, 3600.0]))}]
        if a == "dbfault":
            return [{"op": "dbfault", "at": "sweep",
                     "error": r.choice(["database is locked", "disk I/O error", "database or disk is full"])},
                    {"op": "advance", "to": "sweep", "eps": 0.5}]
        if a == "bulk":
            return self.a_bulk()
        return []

    def a_bulk(self):
        r = self.rng
        app = r.choice(self.apps)
        kind = r.choice(["1-9", "1-99-holes", "1-999", "1-999-holes"])
        if kind == "1-9":
            names = ["%d" % i for i in range(1, 10)]
        elif kind == "1-99-holes":
            names = ["%d" % i for i in range(1, 100)]
        else:
            names = ["%d" % i for i in range(1, 1000)]
        holes = []
        if kind.endswith("holes") or r.random() < 0.3:
            for _ in range(r.randint(1, 4)):
                if len(names) > 1:
                    holes.append(names.pop(r.randrange(len(names))))
        if holes and r.random() < 0.5:
            # another spelling of a free value is in use (leading zeros, other decimal digits)
            h = r.choice(holes)
            names.append(r.choice(["0" + h, "00" + h, "".join(chr(0xFF10 + int(ch)) for ch in h), h + " ", "+" + h]))
        if r.random() < 0.4:
            # names outside 1..999 are in use as well (an earlier overflow allocation, words)
            names += r.sample(["1000", "4711", "123456", "word", "0", "007", "x-1", "9999999"], r.randint(1, 6))
        return [{"op": "bulk", "app": app, "side": "filler", "names": names}]
