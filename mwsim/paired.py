"""Paired-world (metamorphic) drivers: C06, C11, C14, C18 (DESIGN.md 4.13).
No model is involved in the relation itself: the same step list is run in two
or more worlds and designated observations are compared."""
import copy
import json

from .harness import Engine, steps_hash
from .engines import COMMON_ASSUMPTIONS
from .gen import PROFILES, Gen
from .run import run_single
from .seams import make_rng
from . import minimize

KEYED = {"choice": "keyed", "randrange": "keyed"}
LITERAL_PREFIX = "mbx"


def is_literal(x):
    """mailbox ids chosen by the generator ("mbx-appA-0", "mbx1", "other-..."), as opposed to
    ids drawn by the server (13 characters of a-z2-7: never a '-', '0' or '1')"""
    return x.startswith(("mbx-", "other-")) or (len(x) == 4 and x.startswith("mbx") and x[3].isdigit())


class Obs(object):
    """what a world showed: frames per connection, state after every event"""

    def __init__(self, res):
        w = res.world
        self.frames = {}
        for ev in w.history:
            for (c, f) in ev.frames:
                self.frames.setdefault(c, []).append((ev.idx, ev.step, f))
        self.final = w.history[-1].post if w.history else None
        self.ufinal = w.history[-1].upost if w.history else None
        self.events = [(ev.kind, ev.step, ev.conn, [(c, f) for (c, f) in ev.frames], ev.post.key(), ev.notes.get("timer"))
                       for ev in w.history]
        self.violations = list(res.violations)
        self.stopped = res.checker.stopped
        self.conn_app = {cid: cm.bound[0] if cm.bound else None for cid, cm in res.checker.conns.items()}
        self.conn_side = {cid: cm.bound[1] if cm.bound else None for cid, cm in res.checker.conns.items()}
        self.res = res
        self.res_events = [(ev.step, ev.msg, ev.conn) for ev in w.history if ev.kind == "send" and ev.msg is not None]
        self.cm_at = {ev.step: ev.notes.get("cm") for ev in w.history if ev.kind == "send" and ev.notes.get("cm")}


def observe(seed, spec, props=None):
    res = run_single(seed, spec=spec, stop_at_first=False, keep_world=True, props=props)
    try:
        return Obs(res)
    finally:
        res.world.dispose()
        res.world = None
        res.checker = None


def strip(f):
    return {k: v for k, v in f.items() if k != "server_tx"}


class Renamer(object):
    """bijective renaming of generated mailbox ids by order of first appearance"""

    def __init__(self):
        self.map = {}

    def id(self, x):
        if not isinstance(x, str) or is_literal(x):
            return x
        if x not in self.map:
            self.map[x] = "M%d" % len(self.map)
        return self.map[x]

    def frame(self, f):
        g = dict(f)
        if g.get("type") == "claimed":
            g["mailbox"] = self.id(g.get("mailbox"))
        if g.get("type") == "error" and isinstance(g.get("orig"), dict) and "mailbox" in g["orig"]:
            o = dict(g["orig"])
            o["mailbox"] = self.id(o["mailbox"])
            g["orig"] = o
        return g

    def chan(self, chan, app=None):
        d = chan.canon(app)
        # nameplates first (sorted by name) so that ids never seen in a frame get
        # the same label in both worlds
        for n in sorted(d["nameplates"], key=lambda n: (n[0], n[1])):
            n[2] = self.id(n[2])
        for m in d["mailboxes"]:
            if not (isinstance(m[1], str) and (m[1] in self.map or is_literal(m[1]))):
                m[1] = "?"
            else:
                m[1] = self.id(m[1])
        for o in d["orphan_msgs"]:
            o[1] = self.id(o[1]) if o[1] in self.map else o[1]
        d["nameplates"] = sorted(d["nameplates"], key=json.dumps)
        d["mailboxes"] = sorted(d["mailboxes"], key=json.dumps)
        return json.dumps(d, sort_keys=True)


def app_of_conns(steps):
    out = {}
    for st in steps:
        ms = []
        if st["op"] == "send":
            ms = [st["m"]]
        elif st["op"] == "batch":
            ms = st["ms"]
        for m in ms:
            if isinstance(m, dict) and m.get("type") == "bind" and "appid" in m and "side" in m and st["c"] not in out:
                out[st["c"]] = m["appid"]
    return out


class PairedEngine(Engine):
    profile = "default"
    level = "exploration"
    assumptions = COMMON_ASSUMPTIONS + ["the worlds of one evaluation share seed, step list and keyed RNG choices"]

    def runs(self, tier):
        return self.RUNS[0] if tier == "quick" else self.RUNS[1]

    def gen_spec(self, seed):
        g = Gen(seed, PROFILES[self.profile])
        cfg = dict(g.cfg)
        steps = []
        while True:
            st = g.next()
            if st is None:
                break
            steps.append(st)
        return {"seed": seed, "cfg": cfg, "rng_modes": dict(KEYED), "steps": steps, "quiesce": False}

    def compare(self, spec):
        """returns (violations, facts)"""
        raise NotImplementedError

    def evaluate(self, seed, tier):
        spec = self.gen_spec(seed)
        spec = self.prepare(spec, seed, tier)
        viol, facts = self.compare(spec, tier)
        s = {"seed": seed, "viol": viol, "hash": steps_hash(spec["steps"], spec["cfg"]),
             "nontrivial": bool(facts.get("nontrivial")), "counters": facts.get("counters", {}),
             "probes": facts.get("probes", {}), "events": facts.get("events", 0), "steps": len(spec["steps"]),
             "sim": facts.get("sim", 0.0), "shapes": set(), "trans": set(), "extra": facts.get("extra", {})}
        if viol or seed % 400 == 0:
            s["spec"] = spec
        return s

    def prepare(self, spec, seed, tier):
        return spec

    def respec(self, seed, tier):
        return self.prepare(self.gen_spec(seed), seed, tier)

    def replay(self, spec):
        return self.compare(spec, spec.get("tier", "quick"))[0]

    def minimise(self, spec, v):
        clause = v["clause"]

        def fails(steps):
            try:
                return any(x["clause"] == clause for x in self.replay(dict(spec, steps=steps)))
            except Exception:
                return False
        steps = minimize.ddmin(spec["steps"], fails, budget_s=60.0)
        steps = minimize.simplify_steps(steps, fails, budget_s=15.0)
        return dict(spec, steps=steps)

    def v(self, clause, text, step=None, sig=None):
        return {"prop": self.pid, "clause": clause, "event": None, "step": step, "text": text, "sig": sig}

    @staticmethod
    def facts_of(*obs):
        c, p = {}, {}
        ev = 0
        sim = 0.0
        for o in obs:
            for k, x in o.res.counters.items():
                c[k] = c.get(k, 0) + x
            for k, x in o.res.probes.items():
                p[k] = p.get(k, 0) + x
            ev += o.res.n_events
            sim += o.res.sim_seconds
        return {"counters": c, "probes": p, "events": ev, "sim": sim}


# --------------------------------------------------------------------- C06
class C06Engine(PairedEngine):
    pid = "C06"
    profile = "C06"
    RUNS = (2500, 80000)
    rule = ("history H of >=2 apps sharing nameplate names, side strings and message contents, versus H with every "
            "step of the other apps' connections removed (same clock steps, restarts and sweeps); compared: all frames "
            "of the kept app's connections and its channel/usage rows at the end (mailbox ids up to renaming); plus the "
            "step-local clause that no command of one app changes a row of another; non-trivial = both apps own a "
            "nameplate of the same name or a mailbox with a common side string at some point of H")

    def prepare(self, spec, seed, tier):
        apps = sorted(set(a for a in app_of_conns(spec["steps"]).values() if isinstance(a, str)))
        spec["target_app"] = make_rng(seed, "c06").choice(apps) if apps else None
        return spec

    def compare(self, spec, tier):
        B = spec.get("target_app")
        full = observe(spec["seed"], spec, props={"C06"})
        viol = [v for v in full.violations if v["prop"] == "C06"]
        facts = self.facts_of(full)
        if B is None or full.stopped:
            return viol, facts
        # which app a connection belongs to is what it actually bound to in the full run
        amap = {c: a for c, a in full.conn_app.items() if a is not None}
        keep = []
        for st in spec["steps"]:
            if "c" in st and amap.get(st["c"], B) != B:
                continue
            if st["op"] == "bulk" and st.get("app") != B:
                continue
            keep.append(st)
        proj = observe(spec["seed"], dict(spec, steps=keep))
        # non-triviality: shared names / sides between B and another app in H
        names_b, names_o, sides_b, sides_o = set(), set(), set(), set()
        for ev in full.events:
            d = json.loads(ev[4])
            for n in d["nameplates"]:
                (names_b if n[0] == B else names_o).add(n[1])
                for s in n[3]:
                    (sides_b if n[0] == B else sides_o).add(s[0])
            for m in d["mailboxes"]:
                for s in m[4]:
                    (sides_b if m[0] == B else sides_o).add(s[0])
        shared = bool((names_b & names_o) or (sides_b & sides_o))
        facts["nontrivial"] = shared and len(set(amap.values())) >= 2
        facts["probes"]["c06_shared_names_or_sides"] = int(shared)
        r1, r2 = Renamer(), Renamer()
        conns_b = sorted(c for c in set(full.frames) | set(proj.frames) if amap.get(c, B) == B)
        for c in conns_b:
            a = [r1.frame(strip(f)) for (_, _, f) in full.frames.get(c, [])]
            b = [r2.frame(strip(f)) for (_, _, f) in proj.frames.get(c, [])]
            if a != b:
                i = 0
                while i < min(len(a), len(b)) and a[i] == b[i]:
                    i += 1
                step = (full.frames.get(c, []) + [(None, None, None)])[min(i, len(full.frames.get(c, [])))][1]
                viol.append(self.v("projection-same-frames",
                                   "conn %s of app %r: frame #%d is %r with the other apps active, %r without them"
                                   % (c, B, i, a[i] if i < len(a) else None, b[i] if i < len(b) else None), step))
                break
        if not viol and full.final is not None and proj.final is not None:
            ka, kb = r1.chan(full.final, B), r2.chan(proj.final, B)
            if ka != kb:
                viol.append(self.v("projection-same-rows",
                                   "rows of app %r at the end differ: with others %s / alone %s" % (B, ka, kb)))
            if full.ufinal is not None and proj.ufinal is not None:
                ua = json.dumps(full.ufinal.canon(B), sort_keys=True)
                ub = json.dumps(proj.ufinal.canon(B), sort_keys=True)
                if ua != ub:
                    viol.append(self.v("projection-same-usage",
                                       "usage rows of app %r differ: with others %s / alone %s" % (B, ua, ub)))
        f2 = self.facts_of(full, proj)
        f2["nontrivial"] = facts["nontrivial"]
        f2["probes"]["c06_shared_names_or_sides"] = int(shared)
        return viol, f2


# --------------------------------------------------------------------- C11
class C11Engine(PairedEngine):
    pid = "C11"
    profile = "C11"
    RUNS = (2500, 80000)
    rule = ("history with >=1 point at which all connections drop; world K keeps the Server object (only the periodic "
            "timer is re-started), world R stops the service and rebuilds it from the database files; compared: every "
            "frame after the first such point and the channel rows at the end; non-trivial = after a restart point some "
            "connection bound before a sweep and claimed/opened after it while rows of its app existed, or >=2 "
            "connections subscribed after the restart")

    def prepare(self, spec, seed, tier):
        steps = []
        for st in spec["steps"]:
            if st["op"] == "restart":
                steps.append({"op": "restart", "how": "clean"})
            else:
                steps.append(st)
        if not any(s["op"] == "restart" for s in steps) and steps:
            pos = make_rng(seed, "c11").randint(1, len(steps))
            steps.insert(pos, {"op": "restart", "how": "clean"})
        spec["steps"] = steps
        return spec

    def compare(self, spec, tier):
        kept_steps = [({"op": "bounce"} if st["op"] == "restart" else st) for st in spec["steps"]]
        R = observe(spec["seed"], spec)
        K = observe(spec["seed"], dict(spec, steps=kept_steps))
        viol = []
        facts = self.facts_of(R, K)
        first = None
        for i, st in enumerate(spec["steps"]):
            if st["op"] == "restart":
                first = i
                break
        if first is None or R.stopped or K.stopped:
            return viol, facts
        # non-triviality
        facts["nontrivial"] = R.res.probes.get("add_with_2plus_subscribers", 0) >= 1 or \
            R.res.probes.get("replay_nonempty", 0) >= 1
        for c in sorted(set(R.frames) | set(K.frames)):
            a = [(s, strip(f)) for (_, s, f) in R.frames.get(c, []) if s is not None and s > first]
            b = [(s, strip(f)) for (_, s, f) in K.frames.get(c, []) if s is not None and s > first]
            if a != b:
                i = 0
                while i < min(len(a), len(b)) and a[i] == b[i]:
                    i += 1
                viol.append(self.v("restart-invisible-frames",
                                   "conn %s after the restart point: frame #%d is %r on the rebuilt server, %r on the "
                                   "kept one" % (c, i, a[i] if i < len(a) else None, b[i] if i < len(b) else None),
                                   (a[i][0] if i < len(a) else (b[i][0] if i < len(b) else None))))
                break
        if not viol and R.final.key() != K.final.key():
            viol.append(self.v("restart-invisible-rows",
                               "channel rows at the end differ: rebuilt %s / kept %s" % (R.final.key(), K.final.key())))
        if not viol and R.ufinal is not None and K.ufinal is not None:
            # the retirement records are stored state too (the status row legitimately differs:
            # it carries the reboot time)
            ra, ka = R.ufinal.canon(), K.ufinal.canon()
            for t in ("nameplates", "mailboxes"):
                if ra[t] != ka[t]:
                    viol.append(self.v("restart-invisible-usage",
                                       "usage %s records at the end differ: rebuilt %s / kept %s" % (t, ra[t], ka[t])))
                    break
        return viol, facts


# --------------------------------------------------------------------- C14
class C14Engine(PairedEngine):
    pid = "C14"
    profile = "C14"
    RUNS = (2500, 80000)
    DUP_CONN = 900000
    rule = ("history H and H' = H with one successfully answered claim/release/open/close re-sent, immediately "
            "afterwards and at the same virtual instant, on a fresh connection bound to the same app and side, which "
            "then disconnects; compared: the duplicate's answer against the original's, every later frame of every "
            "original connection, the channel rows at the end (timestamps included); non-trivial = the duplicated "
            "command is a close or release that retired something, or a second/third side is present")

    def compare(self, spec, tier):
        H = observe(spec["seed"], spec)
        viol = []
        facts = self.facts_of(H)
        if H.stopped:
            return viol, facts
        # candidate commands: single sends answered without error
        cands = []
        w_events = H.events
        for (kind, step, conn, frames, key, _) in w_events:
            if kind != "send" or step is None:
                continue
            st = spec["steps"][step]
            if st["op"] != "send":
                continue
            mine = [f for (c, f) in frames if c == conn]
            types = [f.get("type") for f in mine]
            m = None
            if "error" in types or len(mine) < 1:
                continue
            if "claimed" in types:
                m = ("claim", [f for f in mine if f.get("type") == "claimed"][0])
            elif "released" in types:
                m = ("release", None)
            elif "closed" in types:
                m = ("close", None)
            else:
                # open: ack followed by messages only
                cmd = self._resolved_cmd(H, step)
                if cmd is not None and cmd.get("type") == "open" and all(t in ("ack", "message") for t in types):
                    m = ("open", None)
            if m is not None:
                cands.append((step, conn, m[0], mine))
        if "dup_at" in spec:
            chosen = [c for c in cands if c[0] == spec["dup_at"]]
        else:
            chosen = [make_rng(spec["seed"], "c14").choice(cands)] if cands else []
        if not chosen:
            return viol, facts
        step, conn, kind, orig_frames = chosen[0]
        spec["dup_at"] = step        # recorded so that a replay duplicates the same command
        cmd = dict(self._resolved_cmd(H, step))
        app, side = H.conn_app.get(conn), H.conn_side.get(conn)
        if app is None:
            return viol, facts
        cm_np, cm_mb = (H.cm_at.get(step) or [None, None])
        if kind == "release" and "nameplate" not in cmd:
            if cm_np is None:
                return viol, facts
            cmd["nameplate"] = cm_np
        if kind == "close" and "mailbox" not in cmd:
            if cm_mb is None:
                return viol, facts
            cmd["mailbox"] = cm_mb
        cmd.pop("id", None)
        D = self.DUP_CONN
        dup = [{"op": "connect", "c": D}, {"op": "send", "c": D, "m": {"type": "bind", "appid": app, "side": side}},
               {"op": "send", "c": D, "m": cmd}, {"op": "drop", "c": D, "how": "abrupt"}]
        steps2 = spec["steps"][:step + 1] + dup + spec["steps"][step + 1:]
        H2 = observe(spec["seed"], dict(spec, steps=steps2))
        f2 = self.facts_of(H, H2)
        f2["probes"]["c14_dup_" + kind] = 1
        # was something retired by the original / is another side present?
        idx = max(i for i, e in enumerate(H.events) if e[1] == step)
        pre_key = json.loads(H.events[idx - 1][4]) if idx > 0 else {"nameplates": [], "mailboxes": []}
        post_key = json.loads(H.events[idx][4])
        retired = (len(post_key["nameplates"]) < len(pre_key["nameplates"])
                   or len(post_key["mailboxes"]) < len(pre_key["mailboxes"]))
        many = any(len(m[4]) >= 2 for m in pre_key["mailboxes"])
        f2["nontrivial"] = retired or many
        if H2.stopped:
            return viol, f2
        # 1. the duplicate's answer
        dupf = [strip(f) for (_, s, f) in H2.frames.get(D, [])]
        got = [f for f in dupf if f.get("type") not in ("welcome", "ack")]
        want = [strip(f) for f in orig_frames if f.get("type") != "ack"]

        def norm(fs):
            return sorted((json.dumps({k: v for k, v in f.items() if k not in ("id",) or f.get("type") == "message"},
                                      sort_keys=True) for f in fs))
        if norm(got) != norm(want):
            viol.append(self.v("resend-same-answer",
                               "%s by side %r re-sent on a fresh connection answered %r, the original got %r"
                               % (kind, side, got, want), step))
        # 2. later frames of the original connections
        def shift(s):
            return s if s is None or s <= step else s - len(dup)
        for c in sorted(set(H.frames) | (set(H2.frames) - {D})):
            a = [(s, strip(f)) for (_, s, f) in H.frames.get(c, [])]
            b = [(shift(s), strip(f)) for (_, s, f) in H2.frames.get(c, [])]
            if a != b:
                i = 0
                while i < min(len(a), len(b)) and a[i] == b[i]:
                    i += 1
                viol.append(self.v("resend-later-frames-equal",
                                   "after re-sending %s (step %d): conn %s frame #%d is %r without the duplicate, %r with it"
                                   % (kind, step, c, i, a[i] if i < len(a) else None, b[i] if i < len(b) else None), step))
                break
        if not viol and H.final.key() != H2.final.key():
            viol.append(self.v("resend-same-rows",
                               "after re-sending %s (step %d) the channel rows at the end differ: %s / with duplicate %s"
                               % (kind, step, H.final.key(), H2.final.key()), step))
        return viol, f2

    def _resolved_cmd(self, H, step):
        for ev in H.res_events:
            if ev[0] == step:
                return ev[1]
        return None

    def _conn_np(self, H, spec, conn, upto):
        np = None
        for (s, m, c) in H.res_events:
            if c == conn and s <= upto and isinstance(m, dict) and m.get("type") == "claim" and "nameplate" in m:
                np = m["nameplate"]
        return np

    def _conn_mb(self, H, spec, conn, upto):
        mb = None
        for (s, m, c) in H.res_events:
            if c == conn and s <= upto and isinstance(m, dict) and m.get("type") == "open" and "mailbox" in m:
                mb = m["mailbox"]
        return mb


# --------------------------------------------------------------------- C18
CONFIGS = [{"allow_list": al, "usage": us, "blur": bl}
           for al in (True, False) for us in (False, True) for bl in (None, 7, 3600)]


class C18Engine(PairedEngine):
    pid = "C18"
    profile = "C18"
    RUNS = (1200, 20000)
    rule = ("the same step list under {listing allowed, disallowed} x {no usage db, usage db} x {no blur, 7, 3600} "
            "(quick: 4 sampled configurations, thorough: all 12), keyed RNG; compared: every frame except the payload "
            "of `nameplates`, and the channel rows after every event; `list` answers are judged per world (live set / "
            "empty); non-trivial = the history contains an allocate and a sweep or close that retires something")

    def compare(self, spec, tier):
        rng = make_rng(spec["seed"], "c18")
        if "configs" in spec:
            configs = spec["configs"]
        elif tier == "thorough":
            configs = CONFIGS
        else:
            configs = [CONFIGS[0]] + rng.sample(CONFIGS[1:], 3)
            if all(c["allow_list"] for c in configs):
                configs[-1] = dict(configs[-1], allow_list=False)
        spec["configs"] = configs    # recorded for replay
        obs = []
        viol = []
        for cfg in configs:
            c2 = dict(spec["cfg"])
            c2.update(cfg)
            o = observe(spec["seed"], dict(spec, cfg=c2), props={"C18"})
            obs.append((cfg, o))
            for v in o.violations:
                if v["prop"] == "C18":
                    v = dict(v, text="[config %r] %s" % (cfg, v["text"]))
                    viol.append(v)
        facts = self.facts_of(*[o for _, o in obs])
        p = obs[0][1].res.probes
        facts["nontrivial"] = (obs[0][1].res.counters.get("rng_choice_calls", 0) >= 1
                               and (p.get("sweep_deleted_mailbox", 0) + p.get("close_deletes_mailbox", 0)
                                    + p.get("release_retires_nameplate", 0)) >= 1)
        facts["extra"] = {"configs_run": len(configs)}
        if any(o.stopped for _, o in obs):
            return viol, facts

        def mask(f):
            g = strip(f)
            if g.get("type") == "nameplates":
                g["nameplates"] = "*"
            return g
        base_cfg, base = obs[0]
        for cfg, o in obs[1:]:
            if len(o.events) != len(base.events):
                viol.append(self.v("options-change-nothing",
                                   "config %r produced %d events, config %r %d" % (cfg, len(o.events), base_cfg, len(base.events))))
                break
            for i, (ea, eb) in enumerate(zip(base.events, o.events)):
                fa = [(c, mask(f)) for (c, f) in ea[3]]
                fb = [(c, mask(f)) for (c, f) in eb[3]]
                if fa != fb:
                    viol.append(self.v("options-change-nothing",
                                       "step %s: frames under %r are %r, under %r they are %r"
                                       % (ea[1], base_cfg, fa[:6], cfg, fb[:6]), ea[1]))
                    break
                if ea[4] != eb[4]:
                    viol.append(self.v("options-change-nothing",
                                       "step %s: channel rows under %r are %s, under %r they are %s"
                                       % (ea[1], base_cfg, ea[4], cfg, eb[4]), ea[1]))
                    break
            if viol:
                break
        return viol, facts


ENGINES = {"C06": C06Engine, "C11": C11Engine, "C14": C14Engine, "C18": C18Engine}
