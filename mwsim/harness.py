"""Batch engine: seeds -> worker processes -> verdict, minimised replay files,
evidence.  One integer (VERIF_SEED) decides a batch; run i uses seed
base*10**6 + i."""
import os
import sys
import json
import time
import hashlib
import faulthandler
import traceback
import multiprocessing
from concurrent.futures import ProcessPoolExecutor, as_completed
from collections import Counter

VERIF = os.path.dirname(os.path.dirname(os.path.abspath(__file__)))
REPLAYS = os.path.join(VERIF, "replays")
EVIDENCE = os.path.join(VERIF, "evidence")
CORPUS = os.path.join(VERIF, "corpus")
KNOWN = os.path.join(VERIF, "KNOWN_FINDINGS.txt")

COMPONENTS = {
    "real": ["server_tap.Options/makeService", "database.py + .sql scripts", "SQLite on real files (tmpfs)",
             "server.py (Server, AppNamespace, Mailbox)", "server_websocket.py", "web.py",
             "twisted MultiService/TimerService/LoopingCall/Site/HTTPChannel",
             "autobahn WebSocketResource + server protocol (upgrade, framing, ping/pong, close)"],
    "simulated": ["reactor clock and listen registry (MemoryReactorClock)", "TCP byte pipe (own transport + pump)",
                  "wall clock", "random.choice/randrange/os.urandom", "process death (directory images)",
                  "transient database errors", "websocket client (scripted RFC6455 peer)"],
    "stub": ["increase_rlimits"],
}


def shorten(o, n=120):
    """long strings are abbreviated in evidence samples (replay files keep them)"""
    if isinstance(o, str) and len(o) > n:
        return o[:40] + "...<%d chars>" % len(o)
    if isinstance(o, dict):
        return {k: shorten(v, n) for k, v in o.items()}
    if isinstance(o, (list, tuple)):
        return [shorten(v, n) for v in o]
    return o


def steps_hash(steps, extra=None):
    return hashlib.sha256(json.dumps([steps, extra], sort_keys=True, default=repr).encode()).hexdigest()[:16]


def load_known():
    out = {"open": [], "fixed": []}
    if not os.path.exists(KNOWN):
        return out
    for line in open(KNOWN, encoding="utf-8"):
        line = line.strip()
        if not line or line.startswith("#"):
            continue
        kind, _, rest = line.partition(":")
        kind = kind.strip()
        rest = rest.strip()
        rec = {"raw": rest}
        for tok in rest.split():
            if tok.startswith("property="):
                rec["property"] = tok[len("property="):]
            elif tok.startswith("sig="):
                rec["sig"] = tok[len("sig="):]
        if kind in out:
            out[kind].append(rec)
    return out


def is_known(v, known):
    if not v.get("sig"):
        return None
    for rec in known["open"]:
        if rec.get("property") == v["prop"] and rec.get("sig") == v["sig"]:
            return rec
    return None


class Engine(object):
    """Subclass per kind of check.  evaluate(seed) must return a picklable
    summary dict with at least: seed, viol (list of violation dicts for this
    property), hash, nontrivial, counters, probes, events, steps, sim."""

    pid = None
    level = "exploration"
    rule = ""
    assumptions = []

    def evaluate(self, seed, tier):
        raise NotImplementedError

    def replay(self, spec):
        """re-execute a replay spec; returns list of violations of this property"""
        raise NotImplementedError

    def minimise(self, spec, v):
        return spec

    def corpus_specs(self):
        d = os.path.join(CORPUS, self.pid)
        out = []
        if os.path.isdir(d):
            for fn in sorted(os.listdir(d)):
                if fn.endswith(".json"):
                    out.append((fn, json.load(open(os.path.join(d, fn), encoding="utf-8"))))
        return out

    def extra_evidence(self, agg):
        return {}


_ENGINE = None


def _work(args):
    seeds, tier, per_run_timeout = args
    out = []
    for s in seeds:
        faulthandler.dump_traceback_later(per_run_timeout, exit=True)
        try:
            out.append(_ENGINE.evaluate(s, tier))
        except Exception:
            out.append({"seed": s, "harness_error": traceback.format_exc()})
        finally:
            faulthandler.cancel_dump_traceback_later()
    return out


def run_batch(engine, tier, base_seed, n_runs, jobs, budget_s=None, per_run_timeout=600):
    global _ENGINE
    _ENGINE = engine
    t0 = time.time()
    seeds = [base_seed * 10 ** 6 + i for i in range(n_runs)]
    chunk = max(1, min(40, n_runs // (jobs * 4) or 1))
    chunks = [seeds[i:i + chunk] for i in range(0, len(seeds), chunk)]
    results = []
    harness_errors = []
    if jobs <= 1:
        for ch in chunks:
            results += _work((ch, tier, per_run_timeout))
            if budget_s and time.time() - t0 > budget_s:
                break
    else:
        ctx = multiprocessing.get_context("fork")
        with ProcessPoolExecutor(max_workers=jobs, mp_context=ctx) as ex:
            futs = []
            it = iter(chunks)
            # keep the queue short so that a budget stop wastes little
            for ch in it:
                futs.append(ex.submit(_work, (ch, tier, per_run_timeout)))
                if len(futs) >= jobs * 3:
                    break
            pending = set(futs)
            while pending:
                done = next(as_completed(pending))
                pending.discard(done)
                try:
                    results += done.result()
                except Exception as e:
                    harness_errors.append("worker died: %r" % (e,))
                    break
                if budget_s and time.time() - t0 > budget_s:
                    continue
                if os.environ.get("VERIF_STOP_FIRST") and any(r.get("viol") for r in results):
                    continue        # screening mode: one violation is enough
                nxt = next(it, None)
                if nxt is not None:
                    pending.add(ex.submit(_work, (nxt, tier, per_run_timeout)))
    for r in results:
        if r.get("harness_error"):
            harness_errors.append("seed %s: %s" % (r["seed"], r["harness_error"]))
    results = [r for r in results if not r.get("harness_error")]
    results.sort(key=lambda r: r["seed"])
    return results, harness_errors, time.time() - t0


def aggregate(results):
    agg = {"counters": Counter(), "probes": Counter(), "events": 0, "steps": 0, "sim": 0.0,
           "hashes": set(), "nontrivial_hashes": set(), "shapes": set(), "trans": set(), "extra": Counter()}
    for r in results:
        agg["counters"].update(r.get("counters") or {})
        agg["probes"].update(r.get("probes") or {})
        agg["extra"].update(r.get("extra") or {})
        agg["events"] += r.get("events", 0)
        agg["steps"] += r.get("steps", 0)
        agg["sim"] += r.get("sim", 0.0)
        agg["hashes"].add(r["hash"])
        if r.get("nontrivial"):
            agg["nontrivial_hashes"].add(r["hash"])
        agg["shapes"].update(r.get("shapes") or ())
        agg["trans"].update(r.get("trans") or ())
    return agg


def write_replay(pid, spec, v, digest=None):
    os.makedirs(REPLAYS, exist_ok=True)
    body = dict(spec)
    body["property"] = pid
    body["clause"] = v["clause"]
    body["sig"] = v.get("sig")
    body["violation"] = v["text"]
    body["digest"] = digest
    body["pythonhashseed"] = os.environ.get("PYTHONHASHSEED")
    h = hashlib.sha256(json.dumps(body, sort_keys=True, default=repr).encode()).hexdigest()[:10]
    path = os.path.join(REPLAYS, "%s-%s-%s.json" % (pid, spec.get("seed"), h))
    with open(path, "w", encoding="utf-8") as f:
        json.dump(body, f, indent=1, sort_keys=True, ensure_ascii=False, default=repr)
    return path


def check_property(engine, tier, base_seed, n_runs, jobs, budget_s=None, write_evidence=True):
    pid = engine.pid
    t0 = time.time()
    known = load_known()
    print("seed=%d tier=%s property=%s runs=%d jobs=%d" % (base_seed, tier, pid, n_runs, jobs))
    sys.stdout.flush()
    status = 0
    lines = []
    known_hits = Counter()
    viol_groups = {}

    # 1. corpus (directed step lists: reproductions of everything found so far)
    corpus = engine.corpus_specs()
    corpus_runs = 0
    for fn, spec in corpus:
        corpus_runs += 1
        try:
            vs = engine.replay(spec)
        except Exception:
            print("HARNESS-ERROR corpus %s: %s" % (fn, traceback.format_exc()))
            return 2
        for v in vs:
            k = is_known(v, known)
            if k is not None:
                known_hits[(v["prop"], v["sig"], k["raw"])] += 1
            else:
                viol_groups.setdefault((v["clause"], v.get("sig")), []).append(
                    {"seed": spec.get("seed"), "spec": spec, "v": v, "corpus": fn})

    # 1b. determinism self-test: a few seeds evaluated twice must agree exactly
    det_n = 4
    det_ok = True
    for k in range(det_n):
        sd = base_seed * 10 ** 6 + 999000 + k
        try:
            a, b = engine.evaluate(sd, tier), engine.evaluate(sd, tier)
        except Exception:
            print("HARNESS-ERROR determinism self-test: %s" % traceback.format_exc())
            return 2
        ka = json.dumps([a.get("hash"), a.get("digest"), sorted(a.get("counters", {}).items()), a.get("viol")],
                        sort_keys=True, default=repr)
        kb = json.dumps([b.get("hash"), b.get("digest"), sorted(b.get("counters", {}).items()), b.get("viol")],
                        sort_keys=True, default=repr)
        if ka != kb:
            print("HARNESS-ERROR nondeterminism: seed %d evaluated twice differs" % sd)
            return 2

    # 2. seeded search
    results, herrs, wall = run_batch(engine, tier, base_seed, n_runs, jobs, budget_s=budget_s)
    if herrs:
        for h in herrs[:5]:
            print("HARNESS-ERROR %s" % h)
        return 2
    for r in results:
        for v in r["viol"]:
            k = is_known(v, known)
            if k is not None:
                known_hits[(v["prop"], v["sig"], k["raw"])] += 1
            else:
                viol_groups.setdefault((v["clause"], v.get("sig")), []).append(
                    {"seed": r["seed"], "spec": r.get("spec"), "v": v})
    agg = aggregate(results)

    hits_by_raw = Counter()
    for (prop, sig, raw), n in known_hits.items():
        hits_by_raw[raw] += n
    for rec in known["open"]:
        if rec.get("property") == pid:
            print("KNOWN-FINDING: %s (reproduced %d times in this run)" % (rec["raw"], hits_by_raw.get(rec["raw"], 0)))

    replay_paths = []
    n_viol = sum(len(g) for g in viol_groups.values())
    for (clause, sig), group in sorted(viol_groups.items(), key=lambda kv: repr(kv[0]))[:(1 if os.environ.get('VERIF_STOP_FIRST') else 4)]:
        first = sorted(group, key=lambda g: (g["seed"] is None, g["seed"]))[0]
        spec = first["spec"]
        v = first["v"]
        if spec is None:
            spec = engine.respec(first["seed"], tier)
        try:
            small = engine.minimise(spec, v)
            vs2 = [x for x in engine.replay(small) if x["clause"] == v["clause"]]
            if not vs2:
                small = spec
                vs2 = [x for x in engine.replay(small) if x["clause"] == v["clause"]]
            vv = vs2[0] if vs2 else v
        except Exception:
            print("HARNESS-ERROR while minimising: %s" % traceback.format_exc())
            return 2
        path = write_replay(pid, small, vv)
        replay_paths.append(path)
        print("VIOLATION property=%s replay=%s" % (pid, path))
        print("  clause=%s seed=%s steps=%d (found in %d runs): %s"
              % (clause, first["seed"], len(small.get("steps", [])), len(group), vv["text"][:400]))
        status = 1

    wall_total = time.time() - t0
    if write_evidence:
        os.makedirs(EVIDENCE, exist_ok=True)
        samples = []
        for r in results:
            if r.get("spec") is not None and len(samples) < 3:
                samples.append({"seed": r["seed"], "nontrivial": bool(r.get("nontrivial")),
                                "cfg": r["spec"].get("cfg"), "steps": shorten(r["spec"].get("steps", r["spec"].get("input", []))[:60]),
                                "outcome": "violation" if r["viol"] else "held"})
        faults = {k[len("fault_"):]: v for k, v in agg["counters"].items() if k.startswith("fault_")}
        if agg["counters"].get("rng_collisions_forced"):
            faults["rng_adversary_collisions"] = agg["counters"]["rng_collisions_forced"]
        cov = {
            "evaluations": len(results) + corpus_runs,
            "distinct_nontrivial": len(agg["nontrivial_hashes"]),
            "rule": engine.rule,
            "samples": samples or [{"note": "no sample recorded"}],
            "distinct_histories": len(agg["hashes"]),
            "corpus_runs": corpus_runs,
            "events_executed": agg["events"],
            "steps_executed": agg["steps"],
            "simulated_seconds": round(agg["sim"], 1),
            "runs_per_hour": int(len(results) / wall * 3600) if wall > 0 else None,
            "seeds": [base_seed * 10 ** 6, base_seed * 10 ** 6 + max(0, len(results) - 1)],
            "faults_fired": faults,
            "sweeps": agg["counters"].get("sweeps", 0),
            "db_calls": agg["counters"].get("db_calls", 0),
            "frames": agg["counters"].get("frames", 0),
            "distinct_state_shapes": len(agg["shapes"]),
            "distinct_transitions": len(agg["trans"]),
            "probes": dict(sorted(agg["probes"].items())),
            "known_findings_hit": [{"property": p, "sig": s, "count": n} for (p, s, _), n in known_hits.items()],
            "determinism_selftest": "%d seeds evaluated twice in-process: identical" % det_n,
            "components": COMPONENTS,
            "exhaustive": False,
        }
        cov.update(engine.extra_evidence(agg))
        ev = {"property_id": pid, "tier": tier, "seed": base_seed, "level": engine.level, "coverage": cov,
              "assumptions": list(engine.assumptions), "wall_s": round(wall_total, 2), "violations": n_viol}
        with open(os.path.join(EVIDENCE, "%s.json" % pid), "w", encoding="utf-8") as f:
            json.dump(ev, f, indent=1, sort_keys=True, ensure_ascii=False, default=repr)
    print("property=%s evaluations=%d distinct_nontrivial=%d violations=%d wall=%.1fs"
          % (pid, len(results) + corpus_runs, len(agg["nontrivial_hashes"]), n_viol, wall_total))
    return status
