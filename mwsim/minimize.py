"""Delta debugging of a failing step list: the same oracle clause of the same
property must keep failing."""
import copy
import os
import time


def ddmin(steps, fails, budget_s=45.0):
    """steps: list; fails(list) -> bool.  Returns a (locally) minimal failing list."""
    if os.environ.get("VERIF_STOP_FIRST"):
        budget_s = min(budget_s, 8.0)      # screening mode
    t0 = time.time()
    cur = list(steps)
    n = 2
    while len(cur) >= 2 and time.time() - t0 < budget_s:
        chunk = max(1, len(cur) // n)
        reduced = False
        i = 0
        while i < len(cur) and time.time() - t0 < budget_s:
            cand = cur[:i] + cur[i + chunk:]
            if cand and fails(cand):
                cur = cand
                n = max(n - 1, 2)
                reduced = True
            else:
                i += chunk
        if not reduced:
            if chunk == 1:
                break
            n = min(len(cur), n * 2)
    return cur


def simplify_steps(steps, fails, budget_s=20.0):
    """argument-level simplifications: drop segmentation, batches into sends,
    drop optional keys, shrink time steps"""
    if os.environ.get("VERIF_STOP_FIRST"):
        budget_s = min(budget_s, 3.0)
    t0 = time.time()
    cur = copy.deepcopy(steps)

    def attempt(i, new):
        if time.time() - t0 > budget_s:
            return False
        cand = cur[:i] + new + cur[i + 1:]
        if fails(cand):
            cur[i:i + 1] = new
            return True
        return False

    i = 0
    while i < len(cur) and time.time() - t0 < budget_s:
        st = cur[i]
        if "seg" in st:
            s2 = {k: v for k, v in st.items() if k != "seg"}
            attempt(i, [s2])
            st = cur[i]
        if st.get("op") == "batch":
            attempt(i, [{"op": "send", "c": st["c"], "m": m} for m in st["ms"]])
            st = cur[i]
        if st.get("op") == "send" and isinstance(st.get("m"), dict):
            for key in ("id", "junk", "client_version", "mood"):
                if key in st["m"] and key != "type":
                    m2 = {k: v for k, v in st["m"].items() if k != key}
                    if attempt(i, [dict(st, m=m2)]):
                        st = cur[i]
        if st.get("op") == "restart" and "down" in st:
            attempt(i, [{k: v for k, v in st.items() if k != "down"}])
        i += 1
    return cur
