"""Seams: every source of nondeterminism of the server is re-pointed here.

Nothing in /repo is modified: all seams are module attributes of the code
under test (DESIGN.md section 3.1).  The code under test is imported from
$VERIF_REPO/src (default /repo/src) so that edits of the working tree -
.sql files included - are what gets exercised.
"""
import os
import sys
import random
import sqlite3 as _real_sqlite3
import hashlib
import warnings

warnings.simplefilter("ignore")

REPO = os.path.abspath(os.environ.get("VERIF_REPO", "/repo"))
_SRC = os.path.join(REPO, "src")
if _SRC not in sys.path:
    sys.path.insert(0, _SRC)

import txaio  # noqa: E402
txaio.use_twisted()

from wormhole_mailbox_server import (  # noqa: E402
    server as srv, server_tap, server_websocket, database, web)

for _m in (srv, server_tap, server_websocket, database, web):
    if not os.path.abspath(_m.__file__).startswith(_SRC + os.sep):
        raise RuntimeError("code under test imported from %s, expected %s"
                           % (_m.__file__, _SRC))

# keep Twisted from printing logged failures to stderr; worlds add their own observer
from twisted.logger import globalLogBeginner  # noqa: E402
try:
    globalLogBeginner.beginLoggingTo([lambda e: None], redirectStandardIO=False, discardBuffer=True)
except Exception:
    pass

_ORIG = {
    "tap_time": server_tap.time,
    "ws_time": server_websocket.time,
    "srv_random": srv.random,
    "srv_os": srv.os,
    "db_sqlite3": database.sqlite3,
    "db_os": database.os,
    "db_tempfile": database.tempfile,
    "db_shutil": database.shutil,
    "rlimits": server_tap.increase_rlimits,
}


def stable_hash(*parts):
    h = hashlib.sha256(repr(parts).encode("utf-8")).digest()
    return int.from_bytes(h[:8], "big")


def make_rng(seed, name):
    # string seeding hashes with SHA-512: independent of PYTHONHASHSEED
    return random.Random("%s/%s" % (seed, name))


class FakeTime(object):
    """Stands in for the `time` module inside server_websocket / server_tap."""

    def __init__(self):
        self.world = None

    def time(self):
        return self.world.wall()


class RandShim(object):
    """Stands in for `random` inside server.py.

    choice modes: faithful | min | max | keyed
    randrange modes: faithful | collide
    """

    def __init__(self):
        self.world = None

    def _key(self, s):
        # numeric strings in numeric order, so that min/max are meaningful
        try:
            return (0, int(s), s)
        except (TypeError, ValueError):
            return (1, 0, str(s))

    def choice(self, seq):
        w = self.world
        cands = sorted(seq, key=self._key)
        mode = w.rng_modes.get("choice", "faithful")
        w.count("rng_choice_calls")
        if mode == "min":
            return cands[0]
        if mode == "max":
            return cands[-1]
        if mode == "keyed":
            return cands[stable_hash(w.seed, "choice", tuple(cands)) % len(cands)]
        return w.rng_choice.choice(cands)

    def randrange(self, *a):
        w = self.world
        mode = w.rng_modes.get("randrange", "faithful")
        w.count("rng_randrange_calls")
        if mode == "collide" and w.collide_budget > 0:
            w.collide_budget -= 1
            used = w.collide_candidates()
            if used:
                w.count("rng_collisions_forced")
                return used[w.rng_choice.randrange(len(used))]
        if mode == "keyed":
            w.keyed_counter += 1
            lo, hi = (0, a[0]) if len(a) == 1 else (a[0], a[1])
            return lo + stable_hash(w.seed, "randrange", w.keyed_counter) % (hi - lo)
        return w.rng_choice.randrange(*a)


class SimDeath(BaseException):
    """the simulated server process dies here (kill -9): raised from a database call and from
    every later one of the same event, so that whatever still runs has no effect"""


class OsShim(object):
    """Stands in for `os` inside server.py (only urandom is used there)."""

    def __init__(self):
        self.world = None

    def urandom(self, n):
        w = self.world
        w.count("urandom_calls")
        return bytes(w.rng_urandom.getrandbits(8) for _ in range(n))

    def __getattr__(self, name):
        return getattr(os, name)


class SimConnection(_real_sqlite3.Connection):
    """sqlite3.Connection that reports every call to the simulator.

    The simulator may raise an injected error before the call, and takes
    crash images after it.  Oracle reads go through the *_raw methods and
    are invisible to the fault-point numbering.
    """

    _sim_world = None
    _sim_name = None

    def execute(self, sql, *args):
        w = self._sim_world
        if w is not None:
            w.db_point(self, "execute", sql)
        r = _real_sqlite3.Connection.execute(self, sql, *args)
        if w is not None:
            w.db_after(self, "execute", sql)
        return r

    def executescript(self, script):
        w = self._sim_world
        if w is not None:
            w.db_point(self, "executescript", script)
        r = _real_sqlite3.Connection.executescript(self, script)
        if w is not None:
            w.db_after(self, "executescript", script)
        return r

    def commit(self):
        w = self._sim_world
        if w is not None:
            w.db_point(self, "commit", None)
        r = _real_sqlite3.Connection.commit(self)
        if w is not None:
            w.db_after(self, "commit", None)
        return r

    def close(self):
        w = self._sim_world
        if w is not None:
            w.db_closed(self)
        return _real_sqlite3.Connection.close(self)

    def raw_execute(self, sql, *args):
        return _real_sqlite3.Connection.execute(self, sql, *args)


class Sqlite3Shim(object):
    """Stands in for the `sqlite3` module inside database.py."""

    def __init__(self):
        self.world = None

    def connect(self, dbfile, *a, **kw):
        w = self.world
        if w is not None:
            w.db_connecting(dbfile)
        kw.setdefault("factory", SimConnection)
        db = _real_sqlite3.connect(dbfile, *a, **kw)
        if w is not None:
            w.db_connected(db, dbfile)
        return db

    def __getattr__(self, name):
        return getattr(_real_sqlite3, name)


TIME = FakeTime()
RAND = RandShim()
OS = OsShim()
SQLITE = Sqlite3Shim()


def install(world):
    """Point every seam at `world` (one world is active at a time)."""
    TIME.world = world
    RAND.world = world
    OS.world = world
    SQLITE.world = world
    server_tap.time = TIME
    server_websocket.time = TIME
    srv.random = RAND
    srv.os = OS
    database.sqlite3 = SQLITE
    server_tap.increase_rlimits = lambda: None
    txaio.config.loop = world.reactor


def uninstall():
    TIME.world = RAND.world = OS.world = SQLITE.world = None
    server_tap.time = _ORIG["tap_time"]
    server_websocket.time = _ORIG["ws_time"]
    srv.random = _ORIG["srv_random"]
    srv.os = _ORIG["srv_os"]
    database.sqlite3 = _ORIG["db_sqlite3"]
    database.os = _ORIG["db_os"]
    database.tempfile = _ORIG["db_tempfile"]
    database.shutil = _ORIG["db_shutil"]
    server_tap.increase_rlimits = _ORIG["rlimits"]
    txaio.config.loop = None
