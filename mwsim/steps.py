"""Step vocabulary and its interpreter (DESIGN.md section 4.6).

A run is a list of JSON-able steps.  Values may be references to what the
server told a connection earlier ({"ref": "claimed", "c": 3}); a reference
that cannot be resolved turns the step into a no-op, so that step lists stay
meaningful under deletion (minimisation)."""
import json
import hashlib

from .spec import EXPIRY, PERIOD

UNRESOLVED = object()


def resolve(world, v):
    if isinstance(v, dict):
        if "ref" in v and set(v.keys()) <= {"ref", "c"}:
            c = world.conns.get(v.get("c"))
            if c is None:
                return UNRESOLVED
            r = c.last.get(v["ref"])
            return UNRESOLVED if r is None else r
        if "cat" in v and set(v.keys()) == {"cat"}:
            # a client-chosen string built around something it was told
            parts = resolve(world, v["cat"])
            if parts is UNRESOLVED:
                return UNRESOLVED
            return "".join(str(x) for x in parts)
        out = {}
        for k, x in v.items():
            r = resolve(world, x)
            if r is UNRESOLVED:
                return UNRESOLVED
            out[k] = r
        return out
    if isinstance(v, list):
        out = []
        for x in v:
            r = resolve(world, x)
            if r is UNRESOLVED:
                return UNRESOLVED
            out.append(r)
        return out
    return v


def server_of(world):
    from .seams import srv
    for s in world.service.services:
        if isinstance(s, srv.Server):
            return s
    raise RuntimeError("no Server service")


def exec_step(world, step, idx):
    """execute one step; returns the list of events it produced"""
    op = step["op"]
    n0 = len(world.history)
    if not world.running and op not in ("restart",):
        return []
    if op == "connect":
        if step["c"] not in world.conns:
            world.connect(step["c"], step=idx)
    elif op == "send":
        m = resolve(world, step["m"])
        if m is not UNRESOLVED:
            world.send(step["c"], [m], step=idx, seg=step.get("seg"), wire=step.get("wire"), gap=step.get("gap"))
    elif op == "batch":
        ms = resolve(world, step["ms"])
        if ms is not UNRESOLVED and ms:
            world.send(step["c"], ms, step=idx, seg=step.get("seg"), kind="batch" if len(ms) > 1 else "send")
    elif op == "hold":
        ms = resolve(world, step["ms"])
        if ms is not UNRESOLVED:
            world.hold(step["c"], ms)
    elif op == "drop":
        world.drop(step["c"], step["how"], step=idx)
    elif op == "advance":
        dt = step.get("dt")
        if "to" in step:
            nxt = world.next_sweep_in()
            if step["to"] == "sweep":
                if nxt is None:
                    dt = PERIOD
                else:
                    dt = max(0.0, nxt + step.get("eps", 0.0))
            elif step["to"] == "phase":
                # advance until (time since the last sweep) == phase
                if nxt is None:
                    dt = step["phase"]
                else:
                    since = PERIOD - nxt
                    dt = (step["phase"] - since) % PERIOD
                    if dt <= 0:
                        dt += PERIOD
        if dt is not None and dt >= 1.0:
            # a TCP teardown does not stay pending while a second or more passes (the server's
            # own close timeout drops the transport): connections left in the close handshake
            # are finished first
            for cid, c in sorted(world.conns.items()):
                if c.alive and c.lingering:
                    world.drop(cid, "finish", step=idx)
        world.advance(dt, step=idx)
        world.count("sim_seconds", dt)
    elif op == "jump":
        world.clock_jump(step["d"], step=idx)
    elif op == "restart":
        how = step.get("how", "clean")
        if world.running:
            if how == "kill":
                world.count("fault_crash")
                world.kill(step=idx)
            else:
                world.count("fault_restart_clean")
                world.stop_clean(step=idx)
        down = step.get("down", 0.0)
        if down:
            world.t_resume += down
            world.count("fault_downtime")
            world.count("sim_seconds", down)
        world.start(step=idx, kind="restart")
    elif op == "crash":
        # the server process dies in the middle of this command (before its n-th database
        # call); it is started again on what the files hold
        m = resolve(world, step["m"])
        if m is not UNRESOLVED and step["c"] in world.conns and world.conns[step["c"]].alive:
            world.arm_death(step["after"])
            world.send(step["c"], [m], step=idx)
            if not world.running:
                down = step.get("down", 0.0)
                if down:
                    world.t_resume += down
                    world.count("fault_downtime")
                    world.count("sim_seconds", down)
                world.start(step=idx, kind="restart")
    elif op == "reconnect":
        # a client that lost its connection comes back on a new one: it still
        # knows what it had been told (`last`), binds again and re-opens its mailbox
        cid = step["c"]
        if cid not in world.conns:
            world.connect(cid, step=idx)
            world.conns[cid].last.update(step.get("last") or {})
            if step.get("app") is not None:
                world.send(cid, [{"type": "bind", "appid": step["app"], "side": step["side"]}], step=idx)
                if step.get("reopen") is not None:
                    world.send(cid, [{"type": "open", "mailbox": step["reopen"]}], step=idx)
    elif op == "bounce":
        # C11 reference world: the clients merely drop; only the periodic timer is
        # re-started so that both worlds sweep at once and share the sweep phase
        for cid, c in sorted(world.conns.items()):
            if c.alive:
                world.drop(cid, "abrupt", step=idx)
        world.bounce_timer(step=idx)
    elif op == "dbfault":
        err = step.get("error", "database is locked")
        if step.get("at", "sweep") == "sweep":
            world.arm_db_fault(lambda ev, db, op_, sql, point: ev.kind == "timer"
                               and ev.notes.get("timer") == "expire" and point == 1, err)
        else:
            k = int(step["at"])
            world.arm_db_fault(lambda ev, db, op_, sql, point, k=k: point == k, err)
    elif op == "bulk":
        ev = world.begin("bulk", step=idx)
        try:
            app = server_of(world).get_app(step["app"])
            when = world.wall()
            from .seams import srv
            refused = 0
            for name in step["names"]:
                try:
                    app.claim_nameplate(name, step["side"], when)
                except (srv.CrowdedError, srv.ReclaimedError):
                    refused += 1
            ev.notes["bulk_refused"] = refused
            ev.notes["bulk_side"] = step["side"]
            ev.notes["bulk_app"] = step["app"]
            ev.notes["bulk"] = len(step["names"])
        except Exception as e:
            import sys as _sys
            from .world import repo_frame
            ev.errors.append({"kind": "internal_error", "type": type(e).__name__, "text": str(e)[:300],
                              "where": repo_frame(_sys.exc_info()[2]), "conn": None, "in": "bulk"})
        world.end()
    elif op == "quiesce":
        for cid, c in sorted(world.conns.items()):
            if c.alive:
                world.drop(cid, "abrupt", step=idx)
        world.fault = None
        world.advance(EXPIRY + 2 * PERIOD + 1.0, step=idx)
        world.count("sim_seconds", EXPIRY + 2 * PERIOD + 1.0)
    else:
        raise ValueError("unknown step %r" % (step,))
    if world.running and op not in ("advance", "quiesce"):
        # the reactor turn ends: whatever the server scheduled "as soon as possible" runs now
        # (commands that arrived in one segment have all been handled before)
        r = world.reactor
        if any(c.getTime() <= r.seconds() for c in r.getDelayedCalls()):
            world.advance(0.0, step=idx)
    return world.history[n0:]


def digest_history(history):
    h = hashlib.sha256()
    for ev in history:
        h.update(json.dumps(ev.brief(), sort_keys=True, default=repr).encode("utf-8"))
        if ev.post is not None:
            h.update(ev.post.key().encode("utf-8"))
        if ev.upost is not None:
            h.update(ev.upost.key().encode("utf-8"))
    return h.hexdigest()
