"""Per-command oracles (the 'otherwise' column of DESIGN.md Appendix A)."""
import json
from collections import Counter

from . import spec

EPS = 1e-6


def _proj(f):
    return (f.get("side"), f.get("phase"), f.get("body"), f.get("id"))


class CommandMixin(object):

    # ------------------------------------------------------------ utilities
    def _chan_unchanged(self, sub):
        return sub.pre is sub.post or sub.pre.key() == sub.post.key()

    def _usage_unchanged(self, sub):
        if sub.upre is None or sub.upost is None:
            return True
        return sub.upre is sub.upost or sub.upre.key() == sub.upost.key()

    def _expect_error(self, prop, clause, sub, rest, text=None):
        """exactly one error frame echoing the command; returns True if so"""
        ok = (len(rest) == 1 and rest[0].get("type") == "error" and rest[0].get("orig") == sub.msg
              and isinstance(rest[0].get("error"), str))
        if ok and text is not None and rest[0].get("error") != text:
            ok = False
        if not ok:
            self.v(prop, clause, sub.ev, "command %r answered by %r, expected one error%s echoing it"
                   % (sub.msg, [self._brief(f) for f in rest], " %r" % text if text else ""))
        return ok

    def _brief(self, f):
        return {k: v for k, v in f.items() if k != "server_tx"} if isinstance(f, dict) else f

    def _no_others(self, prop, sub, what):
        o = sub.others()
        if o:
            self.v(prop, "no-frames-to-others", sub.ev, "%s emitted frames to other connections: %r"
                   % (what, [(c, self._brief(f)) for c, f in o][:4]))
            for (c, f) in o:
                if f.get("type") == "message":
                    self.v("C02", "no-message-outside-add", sub.ev,
                           "message frame to conn %s during %s" % (c, what))

    def _compare(self, sub, ms_alts, app, props_np, props_mb, what):
        """observed post-state of `app` against acceptable model states.
        ms_alts: list of model states.  Other apps must be untouched (C06)."""
        post = spec.to_ms(sub.post)
        pre = spec.to_ms(sub.pre)
        got_np = spec.canon_nps(post, app)
        got_mb = spec.canon_mbs(post, app, with_updated=False)
        ok_np = any(spec.canon_nps(m, app) == got_np for m in ms_alts)
        ok_mb = any(spec.canon_mbs(m, app, with_updated=False) == got_mb for m in ms_alts)
        ok_both = any(spec.canon_nps(m, app) == got_np and spec.canon_mbs(m, app, with_updated=False) == got_mb
                      for m in ms_alts)
        if not ok_np:
            for p in props_np:
                self.v(p, "nameplate-transition", sub.ev,
                       "%s: nameplates of %r are %s, expected %s" % (what, app, got_np, spec.canon_nps(ms_alts[0], app)))
        if not ok_mb:
            for p in props_mb:
                self.v(p, "mailbox-transition", sub.ev,
                       "%s: mailboxes of %r are %s, expected %s"
                       % (what, app, got_mb, spec.canon_mbs(ms_alts[0], app, with_updated=False)))
        if ok_np and ok_mb and not ok_both:
            for p in set(props_np) | set(props_mb):
                self.v(p, "transition", sub.ev, "%s: inconsistent combination of accepted alternatives" % what)
        # isolation: nothing of any other app may change
        for other in sorted(set(a for (a, _) in list(pre["nps"]) + list(pre["mbs"]) + list(post["nps"]) + list(post["mbs"])),
                            key=repr):
            if other == app:
                continue
            if (spec.canon_nps(pre, other) != spec.canon_nps(post, other)
                    or spec.canon_mbs(pre, other) != spec.canon_mbs(post, other)):
                self.v("C06", "other-app-untouched", sub.ev,
                       "%s by app %r changed rows of app %r: nameplates %s -> %s; mailboxes %s -> %s"
                       % (what, app, other, spec.canon_nps(pre, other), spec.canon_nps(post, other),
                          spec.canon_mbs(pre, other), spec.canon_mbs(post, other)))
        if sorted(map(json.dumps, pre["orphans"])) != sorted(map(json.dumps, post["orphans"])):
            if len(post["orphans"]) > len(pre["orphans"]):
                self.v("C13", "no-unsweepable-rows", sub.ev, "%s left message rows without a mailbox" % what)
        return ok_np and ok_mb

    def _refusal_alts(self, sub, app, name, mid, side, now):
        """acceptable states after a refused (crowded) claim/open: nothing
        recorded, or the refused side's rows recorded, stamp touched or not"""
        alts = []
        base = spec.to_ms(sub.pre)
        for rec_np in (False, True):
            for rec_mb in (False, True):
                m = spec.clone(base)
                if rec_np and name is not None:
                    n = m["nps"].get((app, name))
                    if n is None or spec.side_row(n["sides"], side) is not None:
                        continue
                    n["sides"].append([side, True, now])
                if rec_mb:
                    mb = m["mbs"].get((app, mid))
                    if mb is None or spec.side_row(mb["sides"], side) is not None:
                        continue
                    mb["sides"].append([side, True, now, None])
                alts.append(m)
        return alts

    def _adm(self, rec):
        return list(rec["admitted"]) if rec else []

    def _admit_ok(self, adm, side):
        return side in adm or len(adm) < 2

    def _admission(self, rec, side):
        """True / False when the side is (not) among the first two by order of
        success and by order of attempt alike; None where these disagree
        (a refused side's attempt came in between: unspecified)"""
        adm = self._adm(rec)
        att = list(rec["attempted"]) if rec else []
        a = side in adm or len(adm) < 2
        first = []
        for x in att + [side]:
            if x not in first:
                first.append(x)
        b = side in first[:2]
        return a if a == b else None

    def _attempt(self, k_mb, k_np, side):
        for rec in (self.mb_inc.get(k_mb) if k_mb else None, self.np_inc.get(k_np) if k_np else None):
            if rec is not None and side not in rec["attempted"]:
                rec["attempted"].append(side)

    def _touch(self, k, wall, accepted):
        rec = self.mb_inc.get(k)
        if rec is None:
            return
        rec["any"] = wall
        if accepted:
            rec["act"] = wall
            rec["act_t"] = getattr(self, "cur_t", None)     # the same instant on the monotonic clock

    def _f7(self, sub, app, mid):
        """known finding F7: the id lives in another app (mailboxes.id is a global key)"""
        owners = sorted(set(m.app for m in sub.pre.mb_any(mid)))
        self.probes["foreign_mailbox_id"] += 1
        mine = sub.mine()
        bad = [e for e in sub.ev.errors if e.get("kind") == "internal_error"]
        answered = any(f.get("type") in ("closed", "claimed") for f in mine) or \
            (sub.msg.get("type") == "open" and not any(f.get("type") == "error" for f in mine) and not bad)
        if bad or not answered:
            sig = None
            if bad and bad[0].get("type") == "IntegrityError" and "_add_mailbox" in str(bad[0].get("where")):
                sig = "F7-mailbox-id-global-key"
            for p in ("C06", "C17"):
                self.v(p, "same-id-in-two-apps", sub.ev,
                       "app %r used mailbox id %r that exists in app(s) %r: %s"
                       % (app, mid, owners, (bad[0].get("type") + ": " + bad[0].get("text")) if bad else "refused"),
                       sig)
        # the run is polluted from here on (transaction left open, connection gone)
        self.stopped = True

    # ----------------------------------------------------------- dispatcher
    def command(self, cm, sub, err):
        ev, msg = sub.ev, sub.msg
        mine = sub.mine()
        now = ev.wall
        val = spec.validate(cm, msg)
        self.transitions.add((sub.pre.shape(), str(msg.get("type")), val[0] if val[0] != "ok" else val[1],
                              tuple(f.get("type") for f in mine)))
        if err is not None:
            # the handler raised: reported by the universal check (C17); attribute
            # it to the property that owns the command as well
            t = msg.get("type")
            if val[0] == "ok" and val[1] in ("open", "close") and cm.app is not None \
                    and isinstance(val[2], str) and sub.pre.mb(cm.app, val[2]) is None \
                    and sub.pre.mb_any(val[2]):
                # F7 precondition: the id exists, but in another app
                f7 = (err.get("type") == "IntegrityError" and "_add_mailbox" in str(err.get("where")))
                for v in self.viol:
                    if v["event"] == ev.idx and v["clause"] == "no-internal-failure":
                        v["sig"] = "F7-mailbox-id-global-key" if f7 else None
                self._f7(sub, cm.app, val[2])
                return
            owner = {"close": "C08", "release": "C07", "claim": "C07", "allocate": "C04", "open": "C01",
                     "add": "C02"}.get(t)
            if owner and val[0] == "ok":
                self.v(owner, "command-completes", ev, "%s failed internally: %s %s at %s"
                       % (t, err.get("type"), err.get("text"), err.get("where")))
            self._messages_monotonic(sub.pre, sub.post, ev)
            self._track_incarnations(sub.pre, sub.post, ev)
            return
        if val[0] == "noack":
            self.probes["err:no-type"] += 1
            self._expect_error("C17", "error-for-malformed", sub, mine)
            self._error_harmless(sub, "command without type")
            return
        # ack first
        if not mine or mine[0].get("type") != "ack" or mine[0].get("id") != msg.get("id"):
            self.v("C17", "ack-first", ev, "command %r: first frame is %r" % (msg, self._brief(mine[0]) if mine else None))
            rest = [f for f in mine if f.get("type") != "ack"]
        else:
            rest = mine[1:]
        if val[0] == "error":
            if val[2]:
                # unspecified zone (flag set by an attempt that was itself refused,
                # or a handle whose mailbox was deleted): either answer is fine
                self.probes["zone:flag-after-refusal"] += 1
                self._apply_observed(cm, sub, rest)
                return
            self.probes["err:" + val[1]] += 1
            self._expect_error("C17", "error-for-" + val[1], sub, rest)
            self._error_harmless(sub, val[1])
            if val[1] in ("second-claim",):
                pass
            return
        kind, arg = val[1], val[2]
        if (kind == "release" and "nameplate" not in msg and cm.claim_refused) or \
                (kind == "close" and "mailbox" not in msg and cm.open_refused and not cm.held):
            # unspecified zone: the command refers to "what this connection claimed / opened",
            # and that attempt was itself refused: whether it counts is not stated
            self.probes["zone:refers-to-refused-attempt"] += 1
            self._apply_observed(cm, sub, rest)
            return
        getattr(self, "_cmd_" + kind)(cm, sub, rest, arg, now)
        if kind not in ("add",):
            self._messages_monotonic(sub.pre, sub.post, ev)
        self._track_incarnations(sub.pre, sub.post, ev)
        self._post_track(cm, sub, kind, arg, rest, now)

    def _error_harmless(self, sub, what):
        if not self._chan_unchanged(sub):
            self.v("C17", "error-changes-nothing", sub.ev, "refused command (%s) changed the channel database: %s -> %s"
                   % (what, sub.pre.key(), sub.post.key()))
            self._track_incarnations(sub.pre, sub.post, sub.ev)
        if not self._usage_unchanged(sub):
            self.v("C17", "error-changes-nothing", sub.ev, "refused command (%s) changed the usage database" % what)
        self._no_others("C17", sub, "refused command")
        if sub.cid is not None:
            self.probes["errors_checked"] += 1

    def _apply_observed(self, cm, sub, rest, track=True):
        """unspecified zone: follow what the server did, check only invariants"""
        t = sub.msg.get("type")
        errored = any(f.get("type") == "error" for f in rest)
        if not (t == "add" and not errored):
            # (an add in a zone may have been stored or ignored; nothing to attribute)
            self._messages_monotonic(sub.pre, sub.post, sub.ev)
        elif cm.bound and cm.named is not None:
            # keep the history monitor in step with what was stored
            k = (cm.app, cm.named)
            pm, qm = sub.pre.mb(*k), sub.post.mb(*k)
            rec = self.mb_inc.get(k)
            if pm is not None and qm is not None and rec is not None:
                before = Counter(tuple(x[:4]) for x in pm.msgs)
                after = Counter(tuple(x[:4]) for x in qm.msgs)
                for x in (after - before).elements():
                    rec["adds"].append(x)
                self._touch(k, sub.ev.wall, True)
        app, side = cm.app, cm.side
        if t == "open" and "mailbox" in sub.msg and cm.bound and isinstance(sub.msg["mailbox"], str):
            mid = sub.msg["mailbox"]
            sub.ev.notes.setdefault("_att", []).append(((app, mid), None, side))
            if not errored:
                cm.named = mid
                if sub.post.mb(app, mid) is not None:
                    sub.ev.notes.setdefault("_ok", []).append(("open", app, mid, side, cm.id))
            else:
                cm.open_refused = True
        if t == "close" and cm.bound:
            mid = sub.msg.get("mailbox", cm.named)
            if any(f.get("type") == "closed" for f in rest):
                cm.closed = True
                cm.held = False
                self._unsubscribe(cm.id, sub.ev.wall)
                if isinstance(mid, str):
                    sub.ev.notes.setdefault("_ok", []).append(("close", app, mid, side, cm.id))
                    rec = self.mb_inc.get((app, mid))
                    if rec is not None:
                        rec["closed_sides"].add(side)
        if t == "claim" and cm.bound and isinstance(sub.msg.get("nameplate"), str):
            name = sub.msg["nameplate"]
            told = [f.get("mailbox") for f in rest if f.get("type") == "claimed"]
            pn = sub.post.np(app, name)
            mid = told[0] if told else (pn.mailbox if pn is not None else None)
            sub.ev.notes.setdefault("_att", []).append(((app, mid) if mid else None, (app, name), side))
            if told:
                cm.claimed = True
                cm.np = name
                sub.ev.notes.setdefault("_ok", []).append(("claim", app, name, told[0], side))
            elif errored:
                cm.claim_refused = True
        if t == "release" and any(f.get("type") == "released" for f in rest):
            cm.released = True
        # whatever the answer, the attempt named a mailbox: "something happened" to it as
        # far as the must-delete rule is concerned (the server stamps refused attempts too)
        target = None
        if cm.bound:
            if t in ("open", "close"):
                mid = sub.msg.get("mailbox", cm.named)
                target = (app, mid) if isinstance(mid, str) else None
            elif t == "claim" and isinstance(sub.msg.get("nameplate"), str):
                pn = sub.post.np(app, sub.msg["nameplate"])
                target = (app, pn.mailbox) if pn is not None else None
        if track:
            self._track_incarnations(sub.pre, sub.post, sub.ev)
            self._post_track(cm, sub, t, None, rest, sub.ev.wall)
        if target is not None:
            self._touch(target, sub.ev.wall, False)

    # -------------------------------------------------------------- commands
    def _cmd_ping(self, cm, sub, rest, arg, now):
        if len(rest) != 1 or rest[0].get("type") != "pong" or rest[0].get("pong") != arg:
            self.v("C17", "ping-pong", sub.ev, "ping %r answered by %r" % (arg, [self._brief(f) for f in rest]))
        if not cm.bound:
            self.probes["ping_before_bind"] += 1
        self._no_others("C17", sub, "ping")
        if not self._chan_unchanged(sub) or not self._usage_unchanged(sub):
            self.v("C17", "ping-changes-nothing", sub.ev, "ping changed stored state")

    def _cmd_bind(self, cm, sub, rest, arg, now):
        if rest:
            self.v("C17", "bind-silent", sub.ev, "bind answered by %r" % [self._brief(f) for f in rest])
            if any(f.get("type") == "error" for f in rest):
                return
        cm.bound = (arg[0], arg[1])
        self._no_others("C17", sub, "bind")
        if not self._chan_unchanged(sub):
            self.v("C17", "bind-changes-nothing", sub.ev, "bind changed the channel database")
        self._usage_check(sub.ev, sub.pre, sub.post, sub.upre, sub.upost, now, False, False)

    def _cmd_oodbind(self, cm, sub, rest, arg, now):
        """bind with a non-string identifier (outside the input domain)"""
        self.probes["zone:out-of-domain-bind"] += 1
        if any(f.get("type") == "error" for f in rest):
            return
        # accepted: the connection now acts for an application / side of its own
        # (1 is not "1"): everything it does is held against the isolation clauses
        cm.bound = (arg[0], arg[1])
        if not self._chan_unchanged(sub):
            self.v("C17", "bind-changes-nothing", sub.ev, "bind changed the channel database")

    def _cmd_list(self, cm, sub, rest, arg, now):
        app = cm.app
        want = sub.pre.names(app) if self.allow_list else []
        ok = (len(rest) == 1 and rest[0].get("type") == "nameplates"
              and isinstance(rest[0].get("nameplates"), list)
              and all(isinstance(x, dict) and "id" in x for x in rest[0]["nameplates"]))
        got = sorted(x["id"] for x in rest[0]["nameplates"]) if ok else None
        if not ok or got != sorted(want):
            if self.allow_list:
                for p in ("C07", "C18"):
                    self.v(p, "list-is-live-set", sub.ev,
                           "list for app %r answered %r, live nameplates %r" % (app, got if ok else rest, want))
                # names of another app showing up is an isolation failure as well
                if ok and any(g not in want for g in got):
                    others = set(n.name for n in sub.pre.nameplates if n.app != app)
                    if any(g in others for g in got if g not in want):
                        self.v("C06", "list-own-app-only", sub.ev, "list for %r shows names of other apps: %r" % (app, got))
            else:
                self.v("C18", "list-empty-when-disallowed", sub.ev,
                       "listing disallowed but list answered %r" % (got if ok else rest,))
        else:
            self.probes["list_checked_allowed" if self.allow_list else "list_checked_disallowed"] += 1
            if want:
                self.probes["list_nonempty"] += 1
        self._no_others("C17", sub, "list")
        if not self._chan_unchanged(sub):
            self.v("C07", "list-changes-nothing", sub.ev, "list changed the channel database")

    def _cmd_allocate(self, cm, sub, rest, arg, now):
        app, side = cm.app, cm.side
        ev = sub.ev
        if len(rest) != 1 or rest[0].get("type") != "allocated" or not isinstance(rest[0].get("nameplate"), str):
            self.v("C04", "allocate-answers", ev, "allocate answered by %r" % [self._brief(f) for f in rest])
            return
        name = rest[0]["nameplate"]
        cm.allocated = True
        used = set(n.name for n in sub.pre.nameplates if n.app == app)
        if not spec.NAMEPLATE_RE.match(name):
            self.v("C04", "positive-decimal", ev, "allocated %r" % name)
        if name in used:
            self.v("C04", "allocated-is-free", ev, "allocated %r which is in use in app %r (in use: %d names)"
                   % (name, app, len(used)))
            if not self.allow_list:
                self.v("C18", "options-change-nothing", ev, "allocated in-use nameplate %r with listing disallowed" % name)
        want_len = None
        for size in (1, 2, 3):
            if any(("%d" % i) not in used for i in range(10 ** (size - 1), 10 ** size)):
                want_len = size
                break
        if want_len is None:
            self.probes["alloc_4to6"] += 1
            if not (4 <= len(name) <= 6):
                self.v("C04", "shortest-available", ev, "1-999 all taken, allocated %r" % name)
        else:
            if len(name) != want_len:
                self.v("C04", "shortest-available", ev,
                       "allocated %r (%d digits) while a free %d-digit value exists" % (name, len(name), want_len))
            lo, hi = 10 ** (want_len - 1), 10 ** want_len
            taken = [i for i in range(lo, hi) if ("%d" % i) in used]
            if taken:
                self.probes["alloc_with_holes"] += 1
        if not self.allow_list:
            self.probes["alloc_listing_disallowed"] += 1
        pn = sub.post.np(app, name)
        if pn is None or pn.side(side) is None or not pn.side(side).flag:
            self.v("C04", "allocator-holds-claim", ev,
                   "after allocated %r the side %r holds no claim on it (row: %r)"
                   % (name, side, pn.canon() if pn else None))
        ms = spec.to_ms(sub.pre)
        fresh = pn.mailbox if pn is not None else None
        if name not in used and fresh is not None:
            out, mid = spec.claim_apply(ms, app, name, side, now, fresh)
            if out == "foreign":
                self._f7(sub, app, mid)
                return
            self._compare(sub, [ms], app, ["C04"], ["C04"], "allocate")
        self._no_others("C04", sub, "allocate")
        self._usage_check(ev, sub.pre, sub.post, sub.upre, sub.upost, now, False, False)

    def _cmd_claim(self, cm, sub, rest, name, now):
        app, side = cm.app, cm.side
        ev = sub.ev
        cm.claimed = True
        cm.np = name
        if not isinstance(name, str):
            return
        ms = spec.to_ms(sub.pre)
        if ms["dup"]:
            return
        existed = (app, name) in ms["nps"]
        told = rest[0].get("mailbox") if (len(rest) == 1 and rest[0].get("type") == "claimed") else None
        pn = sub.post.np(app, name)
        fresh = told if told is not None else (pn.mailbox if pn is not None else None)
        out, mid = spec.claim_apply(ms, app, name, side, now, fresh)
        errored = any(f.get("type") == "error" for f in rest)
        if out == "foreign":
            self._f7(sub, app, mid)
            return
        if out == "reclaimed":
            self.probes["reclaimed"] += 1
            self._expect_error("C07", "reclaimed", sub, rest, "reclaimed")
            if not self._chan_unchanged(sub):
                self.v("C07", "reclaimed-changes-nothing", ev, "refused re-claim changed the channel database")
            cm.claim_refused = True
            self._no_others("C07", sub, "claim")
            return
        was = self.retired_np.pop((app, name), None)
        if was is not None and told is not None and told == was and not errored:
            self.v("C03", "new-incarnation-gets-new-mailbox", ev,
                   "nameplate %r was retired when mailbox %r was closed by its last side (answered 'closed'), "
                   "yet the next claimant of the name is led to that same mailbox" % (name, was))
        if not existed and told is not None and self.lost_np.get((app, name)) not in (None, told):
            self.v("C03", "same-mailbox-while-nameplate-lives", ev,
                   "nameplate %r led to mailbox %r, was removed by a sweep although it was in use, and now "
                   "leads its next claimant to %r" % (name, self.lost_np[(app, name)], told))
        np_rec = self.np_inc.get((app, name)) if existed else None
        mb_rec = self.mb_inc.get((app, mid)) if mid is not None else None
        ok_np = self._admission(np_rec, side)
        ok_mb = self._admission(mb_rec, side)
        sub.ev.notes.setdefault("_att", []).append(((app, mid), (app, name), side))
        self._no_others("C05", sub, "claim")
        if out == "nofresh":
            # new nameplate but the server neither answered nor stored one
            self.v("C03", "claim-answers", ev, "claim of free nameplate %r answered by %r"
                   % (name, [self._brief(f) for f in rest]))
            return
        if ok_np is True and ok_mb is True:
            if told is None:
                if errored and rest[0].get("error") == "crowded":
                    self.v("C05", "admitted-side-keeps-access", ev,
                           "side %r (admitted: nameplate %r, mailbox %r) refused as crowded on claim of %r"
                           % (side, self._adm(np_rec), self._adm(mb_rec), name))
                else:
                    self.v("C03", "claim-answers", ev, "claim of %r answered by %r" % (name, [self._brief(f) for f in rest]))
                cm.claim_refused = True
                self._compare(sub, self._refusal_alts(sub, app, name, mid, side, now) + [ms], app, ["C07"], ["C08"], "claim")
                return
            if told != mid:
                self.v("C03", "same-mailbox-for-all-claimants", ev,
                       "claim of %r told mailbox %r, the nameplate leads to %r" % (name, told, mid))
            if pn is None or pn.mailbox != told:
                self.v("C03", "told-id-is-stored-id", ev, "claimed %r but stored nameplate row is %r"
                       % (told, pn.canon() if pn else None))
            if np_rec is not None:
                for other in np_rec["told"]:
                    if other != told:
                        self.v("C03", "same-mailbox-for-all-claimants", ev,
                               "nameplate %r: earlier claimant was told %r, now %r" % (name, other, told))
                if np_rec["told"]:
                    self.probes["repeat_claim_same_incarnation"] += 1
            self._compare(sub, [ms], app, ["C07"], ["C08"], "claim")
            sub.ev.notes.setdefault("_ok", []).append(("claim", app, name, mid, side))
        elif ok_np is False and ok_mb is False:
            self.probes["crowded_refusals"] += 1
            if told is not None:
                self.v("C05", "third-side-refused", ev,
                       "side %r was told mailbox %r of nameplate %r although sides %r/%r came first"
                       % (side, told, name, self._adm(np_rec), self._adm(mb_rec)))
                sub.ev.notes.setdefault("_ok", []).append(("claim", app, name, mid, side))
            else:
                self._expect_error("C05", "third-side-gets-crowded", sub, rest, "crowded")
                cm.claim_refused = True
                alts = self._refusal_alts(sub, app, name, mid, side, now)
                self._compare(sub, alts, app, ["C05", "C07"], ["C05", "C08"], "refused claim")
        else:
            self.probes["zone:np-mb-admission-differs"] += 1
            if told is None:
                cm.claim_refused = True
            else:
                sub.ev.notes.setdefault("_ok", []).append(("claim", app, name, mid, side))
        self._usage_check(ev, sub.pre, sub.post, sub.upre, sub.upost, now, False, False)

    def _cmd_release(self, cm, sub, rest, name, now):
        app, side = cm.app, cm.side
        ev = sub.ev
        cm.released = True
        if len(rest) != 1 or rest[0].get("type") != "released":
            self.v("C07", "release-answers-released", ev, "release of %r answered by %r"
                   % (name, [self._brief(f) for f in rest]))
        if not isinstance(name, str):
            return
        ms = spec.to_ms(sub.pre)
        if ms["dup"]:
            return
        held = False
        n = ms["nps"].get((app, name))
        if n is not None:
            r = spec.side_row(n["sides"], side)
            held = r is not None and r[1]
        if not held:
            self.probes["release_without_claim"] += 1
        alts = [ms]
        retired = spec.release_apply(ms, app, name, side, now)
        if n is not None and not retired and held:
            # still claimed by someone: if only by sides that were refused as
            # crowded, the nameplate may or may not persist (unspecified)
            adm = self._adm(self.np_inc.get((app, name)))
            rem = [s[0] for s in n["sides"] if s[1]]
            if rem and all(s not in adm for s in rem):
                m2 = spec.clone(ms)
                del m2["nps"][(app, name)]
                alts.append(m2)
                self.probes["zone:refused-side-holds-nameplate"] += 1
        if retired:
            self.probes["release_retires_nameplate"] += 1
        self._compare(sub, alts, app, ["C07"], ["C07"], "release")
        self._no_others("C07", sub, "release")
        self._usage_check(ev, sub.pre, sub.post, sub.upre, sub.upost, now, False, False)

    def _cmd_open(self, cm, sub, rest, mid, now):
        app, side = cm.app, cm.side
        ev = sub.ev
        cm.named = mid
        if not isinstance(mid, str):
            return
        ms = spec.to_ms(sub.pre)
        # (an id that lives in another app: if the server raises, that is known finding
        # F7 and was handled before we got here; if it answers, it is judged like any
        # other open against per-app ids, as the protocol document scopes them)
        if sub.pre.mb(app, mid) is None and sub.pre.mb_any(mid):
            self.probes["foreign_mailbox_id_answered"] += 1
        out = spec.open_apply(ms, app, mid, side, now, per_app=True)
        k = (app, mid)
        rec = self.mb_inc.get(k)
        adm = self._adm(rec)
        errored = [f for f in rest if f.get("type") == "error"]
        msgs = [f for f in rest if f.get("type") == "message"]
        self._no_others("C01", sub, "open")
        ev.notes.setdefault("_att", []).append((k, None, side))
        verdict = self._admission(rec, side)
        if verdict is None:
            self.probes["zone:admission-order"] += 1
            if errored:
                cm.open_refused = True
            else:
                ev.notes.setdefault("_ok", []).append(("open", app, mid, side, cm.id))
            return
        if verdict:
            if errored:
                if errored[0].get("error") == "crowded":
                    self.v("C05", "admitted-side-keeps-access", ev,
                           "side %r (admitted %r) refused as crowded on open of %r" % (side, adm, mid))
                else:
                    self.v("C01", "open-answers", ev, "open of %r answered by %r" % (mid, [self._brief(f) for f in rest]))
                cm.open_refused = True
                self._compare(sub, self._refusal_alts(sub, app, None, mid, side, now) + [ms], app, ["C07"], ["C08"], "open")
                return
            if len(msgs) != len(rest):
                self.v("C01", "replay-only-messages", ev, "open answered by %r" % [self._brief(f) for f in rest])
            pm = sub.pre.mb(app, mid)
            stored = Counter(tuple(x[:4]) for x in (pm.msgs if pm else []))
            got = Counter(_proj(f) for f in msgs)
            if got != stored:
                self.v("C01", "replay-equals-stored", ev,
                       "open of %r/%r replayed %s, stored for it: %s"
                       % (app, mid, sorted(got.elements(), key=repr), sorted(stored.elements(), key=repr)))
            hist = Counter(rec["adds"]) if rec is not None else Counter()
            if got != hist:
                self.v("C01", "replay-equals-history", ev,
                       "open of %r/%r replayed %s, messages added to this incarnation: %s"
                       % (app, mid, sorted(got.elements(), key=repr), sorted(hist.elements(), key=repr)))
            if msgs:
                self.probes["replay_nonempty"] += 1
                if any(m.msgs for m in sub.pre.mailboxes if (m.app, m.id) != k):
                    self.probes["replay_with_other_messages_present"] += 1
            elif rec is None and self.np_ids.get(mid) is None and any(1 for _ in [0]):
                pass
            self._compare(sub, [ms], app, ["C07"], ["C08"], "open")
            ev.notes.setdefault("_ok", []).append(("open", app, mid, side, cm.id))
        else:
            self.probes["crowded_refusals"] += 1
            if msgs or not errored:
                self.v("C05", "third-side-refused", ev,
                       "side %r opened mailbox %r (got %d messages) although sides %r came first"
                       % (side, mid, len(msgs), adm))
                if not errored:
                    ev.notes.setdefault("_ok", []).append(("open", app, mid, side, cm.id))
            else:
                self._expect_error("C05", "third-side-gets-crowded", sub, rest, "crowded")
                cm.open_refused = True
                self._compare(sub, self._refusal_alts(sub, app, None, mid, side, now), app,
                              ["C05", "C07"], ["C05", "C08"], "refused open")
        self._usage_check(ev, sub.pre, sub.post, sub.upre, sub.upost, now, False, False)

    def _cmd_add(self, cm, sub, rest, arg, now):
        app, side = cm.app, cm.side
        ev, msg = sub.ev, sub.msg
        mid = cm.named
        k = (app, mid)
        if cm.stale or sub.pre.mb(app, mid) is None:
            # unspecified: add through a handle whose mailbox was deleted under it.
            # Only the consequences are judged (C01 replay, C13 emptiness).
            self.probes["zone:add-through-stale-handle"] += 1
            self._messages_monotonic(sub.pre, sub.post, ev)
            recx = self.mb_inc.get(k)
            for (c, f) in sub.frames:
                if f.get("type") == "message" and c != cm.id:
                    self.v("C02", "unsubscribed-gets-nothing", ev,
                           "add through a dead handle delivered a message to conn %s" % c)
                    if recx is not None and side not in recx["admitted"] and len(recx["admitted"]) >= 2:
                        self.v("C05", "third-side-sent-nothing", ev,
                               "side %r, whose own incarnation of mailbox %r has ended, got a message into the "
                               "mailbox now shared by sides %r" % (side, k, recx["admitted"]))
            return
        want = (side, msg["phase"], msg["body"], msg.get("id"))
        ms = spec.to_ms(sub.pre)
        spec.add_apply(ms, app, mid, side, msg["phase"], msg["body"], msg.get("id"), now)
        self._messages_monotonic(sub.pre, sub.post, ev, allowed_add=(k, want))
        pm = sub.post.mb(app, mid)
        stored = Counter(tuple(x[:4]) for x in (pm.msgs if pm else []))
        prev = Counter(tuple(x[:4]) for x in sub.pre.mb(app, mid).msgs)
        prev[want] += 1
        if stored != prev:
            self.v("C01", "add-is-stored", ev, "after add %r the stored messages of %r are %s"
                   % (want, k, sorted(stored.elements(), key=repr)))
        self._compare(sub, [ms], app, ["C07"], ["C08"], "add")
        # fan-out
        subscribers = list(self.subs.get(k, []))
        per = {}
        for (c, f) in sub.frames:
            if f.get("type") == "message":
                per.setdefault(c, []).append(f)
            elif c != cm.id:
                self.v("C02", "unsubscribed-gets-nothing", ev, "add emitted %r to conn %s" % (self._brief(f), c))
        for c in subscribers:
            got = per.pop(c, [])
            cmo = self.conns.get(c)
            if cmo is not None and getattr(cmo, "lingering", False) and not got:
                continue          # in the close handshake: nothing can be delivered any more
            if len(got) != 1:
                self.v("C02", "each-subscriber-exactly-once", ev,
                       "add %r on %r: subscribed conn %s received %d message frames (subscribers %r)"
                       % (want, k, c, len(got), subscribers))
                rec2 = self.mb_inc.get(k)
                if not got and rec2 is not None and rec2["closed_sides"]:
                    # C08: one side's close never removes the other side's subscription
                    self.v("C08", "close-keeps-other-subscription", ev,
                           "after side(s) %r closed mailbox %r, conn %s (still subscribed) no longer receives what is added"
                           % (sorted(rec2["closed_sides"], key=repr), k, c))
            elif _proj(got[0]) != want:
                self.v("C02", "delivered-unmodified-with-binders-side", ev,
                       "add %r delivered to conn %s as %r" % (want, c, _proj(got[0])))
        for c, got in per.items():
            self.v("C02", "unsubscribed-gets-nothing", ev,
                   "add on %r delivered %d message frame(s) to conn %s which is not subscribed to it"
                   % (k, len(got), c))
            cmo = self.conns.get(c)
            if cmo is not None and cmo.app != app:
                self.v("C06", "no-delivery-across-apps", ev, "message of app %r delivered to conn of app %r" % (app, cmo.app))
            recx = self.mb_inc.get(k)
            if cmo is not None and recx is not None and cmo.side not in recx["admitted"] and len(recx["admitted"]) >= 2:
                self.v("C05", "third-side-sent-nothing", ev,
                       "a message of mailbox %r (sides %r) was sent to conn %s of side %r"
                       % (k, recx["admitted"], c, cmo.side))
        others_rest = [f for f in rest if f.get("type") != "message"]
        if others_rest:
            self.v("C02", "add-answers", ev, "add answered by %r" % [self._brief(f) for f in others_rest])
        if len(subscribers) >= 2:
            self.probes["add_with_2plus_subscribers"] += 1
            eps = set(self.sub_epoch.get(c) for c in subscribers) if hasattr(self, "sub_epoch") else set()
            if len(eps) >= 2:
                self.probes["add_subscribers_from_different_epochs"] += 1
        if "side" in msg and msg["side"] != side:
            self.probes["add_with_bogus_side"] += 1
        rec = self.mb_inc.get(k)
        if rec is not None:
            rec["adds"].append(want)
        self._touch(k, now, True)
        self._usage_check(ev, sub.pre, sub.post, sub.upre, sub.upost, now, False, False)

    def _cmd_close(self, cm, sub, rest, mid, now):
        app, side = cm.app, cm.side
        ev, msg = sub.ev, sub.msg
        if not isinstance(mid, str):
            return
        k = (app, mid)
        if cm.held and (cm.stale or cm.named != mid):
            self.probes["zone:close-through-stale-handle"] += 1
            self._apply_observed(cm, sub, rest, track=False)
            return
        ms = spec.to_ms(sub.pre)
        rec = self.mb_inc.get(k)
        adm = self._adm(rec)
        transient = sub.pre.mb(app, mid) is None
        errored = [f for f in rest if f.get("type") == "error"]
        self._no_others("C08", sub, "close")
        if not cm.held:
            out = spec.open_apply(ms, app, mid, side, now, per_app=True)
            ev.notes.setdefault("_att", []).append((k, None, side))
            verdict = self._admission(rec, side)
            if verdict is None:
                self.probes["zone:admission-order"] += 1
                self._apply_observed(cm, sub, rest, track=False)
                return
            if not verdict:
                self.probes["crowded_refusals"] += 1
                if not errored:
                    self.v("C05", "third-side-refused", ev,
                           "close by side %r on mailbox %r accepted although sides %r came first" % (side, mid, adm))
                else:
                    self._expect_error("C05", "third-side-gets-crowded", sub, rest, "crowded")
                    self._compare(sub, self._refusal_alts(sub, app, None, mid, side, now), app,
                                  ["C05", "C07"], ["C05", "C08"], "refused close")
                    return
            elif errored and errored[0].get("error") == "crowded":
                self.v("C05", "admitted-side-keeps-access", ev,
                       "side %r (admitted %r) refused as crowded on close of %r" % (side, adm, mid))
                self.v("C08", "close-answers-closed", ev,
                       "re-sent close of %r by side %r refused as crowded" % (mid, side))
                self.v("C14", "resend-same-answer", ev, "re-sent close refused as crowded")
                self._compare(sub, self._refusal_alts(sub, app, None, mid, side, now) + [ms], app, ["C07"], ["C08"], "close")
                return
            if transient:
                self.probes["close_of_absent_mailbox"] += 1
            else:
                self.probes["close_resent_or_unopened"] += 1
        if len(rest) != 1 or rest[0].get("type") != "closed":
            self.v("C08", "close-answers-closed", ev, "close of %r answered by %r" % (mid, [self._brief(f) for f in rest]))
            if errored:
                self._compare(sub, [spec.to_ms(sub.pre)], app, ["C07"], ["C08"], "close")
                return
        cm.closed = True
        was_sub = cm.held
        cm.held = False
        self._unsubscribe(cm.id, now)
        mb = ms["mbs"].get(k)
        nps_before = [kk for kk, n in ms["nps"].items() if kk[0] == app and n["mailbox"] == mid]
        claimed_before = sum(1 for kk in nps_before for s in ms["nps"][kk]["sides"] if s[1])
        other_np_held = any(kk[0] == app and kk not in nps_before and
                            any(s[0] == side and s[1] for s in n["sides"]) for kk, n in ms["nps"].items())
        pre_ms = spec.clone(ms)
        rm, rn = spec.close_apply(ms, app, mid, side, msg.get("mood"), now)
        alts = [ms]
        if rm:
            self.probes["close_deletes_mailbox"] += 1
            if claimed_before >= 2:
                self.probes["last_close_nameplate_claimed_by_both"] += 1
            if claimed_before >= 1:
                self.probes["last_close_nameplate_still_claimed"] += 1
            if other_np_held:
                self.probes["last_close_closer_holds_other_nameplate"] += 1
            # zone: a side that closed and re-opened is subscribed -> may survive
            reopened = rec["reopened"] if rec else set()
            if any(s in reopened for s in [r[0] for r in mb["sides"]] if s != side):
                m2 = spec.clone(pre_ms)
                r = spec.side_row(m2["mbs"][k]["sides"], side)
                r[1], r[3] = False, msg.get("mood")
                alts.append(m2)
                self.probes["zone:closed-then-reopened-side"] += 1
        elif mb is not None:
            # not deleted: if the only sides still open were refused (crowded)
            # sides, deletion is acceptable as well
            still = [r[0] for r in mb["sides"] if r[1]]
            if still and all(s not in adm for s in still):
                m2 = spec.clone(ms)
                spec.delete_mailbox(m2, app, mid)
                alts.append(m2)
                self.probes["zone:refused-side-keeps-mailbox"] += 1
            else:
                self.probes["close_keeps_mailbox"] += 1
        self._compare(sub, alts, app, ["C07", "C08"], ["C08"], "close")
        if rm and len(alts) == 1 and len(rest) == 1 and rest[0].get("type") == "closed":
            # the last open side closed and was told so: whatever was stored is discarded
            # from here on, whether or not the rows were seen to go (C01: a later open
            # must start empty)
            ev.notes["_expect_deleted"] = k
            # ... and so is every nameplate that led to it (C03: the next claimant of the
            # name starts a new incarnation with a mailbox of its own)
            for n in sub.pre.nameplates:
                if n.app == app and n.mailbox == mid:
                    self.retired_np[(app, n.name)] = mid
        self._usage_check(ev, sub.pre, sub.post, sub.upre, sub.upost, now, False, transient, issuer_app=app,
                          closing=(app, mid, side, msg.get("mood")))
        if rec is not None:
            rec["closed_sides"].add(side)
        ev.notes.setdefault("_ok", []).append(("close", app, mid, side, cm.id))

    # ---------------------------------------------------------- bookkeeping
    def _post_track(self, cm, sub, kind, arg, rest, now):
        """monitor updates that need the (possibly new) incarnation records"""
        if not hasattr(self, "sub_epoch"):
            self.sub_epoch = {}
        gone = sub.ev.notes.pop("_expect_deleted", None)
        if gone is not None and gone in self.mb_inc:
            # rows still there although the mailbox was closed by its last side: a new
            # incarnation as far as the replay history is concerned
            for cid in self.subs.pop(gone, []):
                cmo = self.conns.get(cid)
                if cmo is not None and cmo.held:
                    cmo.stale = True
            old = self.mb_inc[gone]
            fresh = self._new_mb(gone, sub.ev)
            fresh["act"], fresh["any"], fresh["act_t"] = old.get("act"), old.get("any"), old.get("act_t")
            self.probes["closed_mailbox_rows_linger"] += 1
        for (k_mb, k_np, side_) in sub.ev.notes.pop("_att", []):
            self._attempt(k_mb, k_np, side_)
        for rec in sub.ev.notes.pop("_ok", []):
            if rec[0] == "claim":
                _, app, name, mid, side = rec
                npr = self.np_inc.get((app, name))
                if npr is not None:
                    npr["told"].add(mid)
                    if side not in npr["admitted"]:
                        npr["admitted"].append(side)
                mbr = self.mb_inc.get((app, mid))
                if mbr is not None and side not in mbr["admitted"]:
                    mbr["admitted"].append(side)
                self._touch((app, mid), now, True)
            elif rec[0] == "open":
                _, app, mid, side, cid = rec
                k = (app, mid)
                mbr = self.mb_inc.get(k)
                if mbr is not None:
                    if side not in mbr["admitted"]:
                        mbr["admitted"].append(side)
                    if side in mbr["closed_sides"]:
                        mbr["reopened"].add(side)
                cm.held, cm.stale = True, False
                self.subs.setdefault(k, [])
                if cid not in self.subs[k]:
                    self.subs[k].append(cid)
                self.sub_epoch[cid] = self.epoch
                self._touch(k, now, True)
                if mbr is None:
                    # the open was answered but no such row exists: if the server filed the mailbox
                    # under another spelling of the app id, the subscription protects that row
                    al = [k2 for k2 in self.mb_inc if k2[1] == mid and k2 != k and sub.post.mb(*k2) is not None
                          and any(r.side == side for r in sub.post.mb(*k2).sides)]
                    if len(al) == 1:
                        self.subs.setdefault(al[0], [])
                        if cid not in self.subs[al[0]]:
                            self.subs[al[0]].append(cid)
                        self._touch(al[0], now, True)
                        self.probes["subscription_filed_elsewhere"] += 1
            elif rec[0] == "close":
                _, app, mid, side, cid = rec
                # a close by a side that had not opened performs an open first:
                # that side is admitted like any other opener
                mbr = self.mb_inc.get((app, mid))
                if mbr is not None and side not in mbr["admitted"]:
                    mbr["admitted"].append(side)
                self._touch((app, mid), now, False)
        if kind == "allocate" and cm.allocated and rest and rest[0].get("type") == "allocated":
            name = rest[0].get("nameplate")
            pn = sub.post.np(cm.app, name)
            if pn is not None:
                npr = self.np_inc.get((cm.app, name))
                if npr is not None and cm.side not in npr["admitted"]:
                    npr["admitted"].append(cm.side)
                mbr = self.mb_inc.get((cm.app, pn.mailbox))
                if mbr is not None and cm.side not in mbr["admitted"]:
                    mbr["admitted"].append(cm.side)
                self._attempt((cm.app, pn.mailbox), (cm.app, name), cm.side)
                self._touch((cm.app, pn.mailbox), now, True)
        if kind in ("claim", "open", "close") and any(f.get("type") == "error" for f in rest):
            # refused attempts still count as "something happened" for the must-delete rule
            target = None
            if kind == "claim":
                pn = sub.post.np(cm.app, arg) if isinstance(arg, str) else None
                target = (cm.app, pn.mailbox) if pn is not None else None
            elif isinstance(arg, str):
                target = (cm.app, arg)
            if target is not None:
                self._touch(target, now, False)
