"""Abstraction function: database files -> plain Python values.

Independent SQL (never the server's queries).  Row ids are kept only as an
arrival order (they are not observable) and are dropped from canonical forms.
"""
import json
import sqlite3


def _q(db, sql):
    # a private cursor without row factory: works on the oracle's own reader
    # and on the server's connection (whose row_factory returns dicts), and
    # bypasses the simulator's fault-point accounting
    cur = sqlite3.Connection.cursor(db)
    cur.row_factory = None
    return cur.execute(sql).fetchall()


def _get(row, i):
    return row[i]


class Side(object):
    __slots__ = ("side", "flag", "added", "mood", "order")

    def __init__(self, side, flag, added, mood, order):
        self.side = side
        self.flag = bool(flag) if flag is not None else None
        self.added = added
        self.mood = mood
        self.order = order

    def canon(self):
        return [self.side, self.flag, self.added, self.mood]


class Nameplate(object):
    __slots__ = ("app", "name", "mailbox", "sides", "rowid")

    def __init__(self, app, name, mailbox, rowid):
        self.app = app
        self.name = name
        self.mailbox = mailbox
        self.sides = []
        self.rowid = rowid

    def side(self, s):
        for x in self.sides:
            if x.side == s:
                return x
        return None

    def canon(self):
        return [self.app, self.name, self.mailbox,
                [s.canon()[:3] for s in self.sides]]


class Mailbox(object):
    __slots__ = ("app", "id", "updated", "for_nameplate", "sides", "msgs")

    def __init__(self, app, id, updated, for_nameplate):
        self.app = app
        self.id = id
        self.updated = updated
        self.for_nameplate = bool(for_nameplate) if for_nameplate is not None else None
        self.sides = []
        self.msgs = []

    def side(self, s):
        for x in self.sides:
            if x.side == s:
                return x
        return None

    def canon(self):
        return [self.app, self.id, self.updated, self.for_nameplate,
                [s.canon() for s in self.sides],
                sorted(self.msgs, key=lambda m: json.dumps(m))]


class ChanState(object):
    """alpha(channel database)."""

    def __init__(self):
        self.nameplates = []      # arrival order
        self.mailboxes = []       # arrival (rowid) order
        self.orphan_np_sides = []
        self.orphan_mb_sides = []
        self.orphan_msgs = []     # messages whose (app, mailbox) has no mailbox row
        self.dangling_nps = []    # nameplates whose mailbox is missing / other app
        self.version = None

    # lookups -------------------------------------------------------------
    def nps(self, app, name):
        return [n for n in self.nameplates if n.app == app and n.name == name]

    def np(self, app, name):
        r = self.nps(app, name)
        return r[0] if r else None

    def mb(self, app, mid):
        for m in self.mailboxes:
            if m.app == app and m.id == mid:
                return m
        return None

    def mb_any(self, mid):
        return [m for m in self.mailboxes if m.id == mid]

    def np_for_mailbox(self, app, mid):
        return [n for n in self.nameplates if n.app == app and n.mailbox == mid]

    def apps(self):
        s = set(n.app for n in self.nameplates) | set(m.app for m in self.mailboxes)
        s |= set(m[0] for m in self.orphan_msgs)
        return s

    def names(self, app):
        return sorted(set(n.name for n in self.nameplates if n.app == app))

    def is_empty(self):
        return not (self.nameplates or self.mailboxes or self.orphan_np_sides
                    or self.orphan_mb_sides or self.orphan_msgs)

    def counts(self):
        return {
            "nameplates": len(self.nameplates),
            "nameplate_sides": sum(len(n.sides) for n in self.nameplates) + len(self.orphan_np_sides),
            "mailboxes": len(self.mailboxes),
            "mailbox_sides": sum(len(m.sides) for m in self.mailboxes) + len(self.orphan_mb_sides),
            "messages": sum(len(m.msgs) for m in self.mailboxes) + len(self.orphan_msgs),
        }

    def canon(self, app=None):
        nps = [n.canon() for n in self.nameplates if app is None or n.app == app]
        mbs = [m.canon() for m in self.mailboxes if app is None or m.app == app]
        d = {
            "nameplates": sorted(nps, key=json.dumps),
            "mailboxes": sorted(mbs, key=json.dumps),
            "orphan_msgs": sorted([m for m in self.orphan_msgs if app is None or m[0] == app],
                                  key=json.dumps),
        }
        if app is None:
            d["orphan_np_sides"] = sorted(self.orphan_np_sides, key=json.dumps)
            d["orphan_mb_sides"] = sorted(self.orphan_mb_sides, key=json.dumps)
        return d

    def key(self, app=None):
        return json.dumps(self.canon(app), sort_keys=True)

    def shape(self):
        """Coarse state shape used for the 'distinct states reached' measure."""
        out = []
        for m in self.mailboxes:
            nps = self.np_for_mailbox(m.app, m.id)
            out.append((len(m.sides), sum(1 for s in m.sides if s.flag), min(len(m.msgs), 3),
                        len(nps), tuple(sorted((len(n.sides), sum(1 for s in n.sides if s.flag))
                                               for n in nps))))
        return (tuple(sorted(out)), len(self.orphan_msgs) > 0)


def read_channel(db):
    st = ChanState()
    try:
        v = _q(db, "SELECT version FROM version")
        st.version = v[0][0] if v else None
    except Exception:
        st.version = None
    by_id = {}
    for (rowid, app, name, mid) in _q(
            db, "SELECT id, app_id, name, mailbox_id FROM nameplates ORDER BY id"):
        n = Nameplate(app, name, mid, rowid)
        st.nameplates.append(n)
        by_id[rowid] = n
    for (rid, npid, claimed, side, added) in _q(
            db, "SELECT rowid, nameplates_id, claimed, side, added FROM nameplate_sides ORDER BY rowid"):
        n = by_id.get(npid)
        if n is None:
            st.orphan_np_sides.append([npid, side, bool(claimed), added])
        else:
            n.sides.append(Side(side, claimed, added, None, rid))
    mb_by_id = {}
    for (rid, app, mid, updated, fornp) in _q(
            db, "SELECT rowid, app_id, id, updated, for_nameplate FROM mailboxes ORDER BY rowid"):
        m = Mailbox(app, mid, updated, fornp)
        st.mailboxes.append(m)
        mb_by_id.setdefault(mid, []).append(m)
    for (rid, mid, opened, side, added, mood) in _q(
            db, "SELECT rowid, mailbox_id, opened, side, added, mood FROM mailbox_sides ORDER BY rowid"):
        ms = mb_by_id.get(mid)
        if not ms:
            st.orphan_mb_sides.append([mid, side, bool(opened), added, mood])
        else:
            ms[0].sides.append(Side(side, opened, added, mood, rid))
    for (rid, app, mid, side, phase, body, rx, msgid) in _q(
            db, "SELECT rowid, app_id, mailbox_id, side, phase, body, server_rx, msg_id"
                " FROM messages ORDER BY rowid"):
        target = None
        for m in mb_by_id.get(mid, ()):
            if m.app == app:
                target = m
        if target is None:
            st.orphan_msgs.append([app, mid, side, phase, body, msgid, rx])
        else:
            target.msgs.append([side, phase, body, msgid, rx])
    for n in st.nameplates:
        if not any(m.app == n.app for m in mb_by_id.get(n.mailbox, ())):
            st.dangling_nps.append([n.app, n.name, n.mailbox])
    return st


class UsageState(object):
    def __init__(self):
        self.nameplates = []       # (rowid, app, started, waiting, total, result)
        self.mailboxes = []        # (rowid, app, for_nameplate, started, total, waiting, result)
        self.client_versions = []  # (rowid, app, side, connect_time, implementation, version)
        self.current = []          # (rebooted, updated, blur_time, connections_websocket)
        self.version = None

    def canon(self, app=None):
        def f(rows):
            return sorted([list(r[1:]) for r in rows if app is None or r[1] == app], key=json.dumps)
        d = {"nameplates": f(self.nameplates), "mailboxes": f(self.mailboxes),
             "client_versions": f(self.client_versions)}
        if app is None:
            d["current"] = [list(r) for r in self.current]
        return d

    def key(self, app=None):
        return json.dumps(self.canon(app), sort_keys=True)

    def maxids(self):
        return (max([r[0] for r in self.nameplates] or [0]),
                max([r[0] for r in self.mailboxes] or [0]),
                max([r[0] for r in self.client_versions] or [0]))

    def new_since(self, prev):
        a, b, c = prev.maxids() if prev is not None else (0, 0, 0)
        return ([r for r in self.nameplates if r[0] > a],
                [r for r in self.mailboxes if r[0] > b],
                [r for r in self.client_versions if r[0] > c])


def read_usage(db):
    st = UsageState()
    try:
        v = _q(db, "SELECT version FROM version")
        st.version = v[0][0] if v else None
    except Exception:
        st.version = None
    st.nameplates = [tuple(r) for r in _q(
        db, "SELECT rowid, app_id, started, waiting_time, total_time, result FROM nameplates ORDER BY rowid")]
    st.mailboxes = [tuple(r) for r in _q(
        db, "SELECT rowid, app_id, for_nameplate, started, total_time, waiting_time, result"
            " FROM mailboxes ORDER BY rowid")]
    try:
        st.client_versions = [tuple(r) for r in _q(
            db, "SELECT rowid, app_id, side, connect_time, implementation, version"
                " FROM client_versions ORDER BY rowid")]
    except Exception:
        st.client_versions = []
    st.current = [tuple(r) for r in _q(
        db, "SELECT rebooted, updated, blur_time, connections_websocket FROM current ORDER BY rowid")]
    return st
