"""Per-property registry: which engine decides it, with which generator
profile, which slice of the comparison belongs to it, and what makes a run
non-trivial for it (DESIGN.md section 5)."""
from .gen import PROFILES


def _p(res, k):
    return res.probes.get(k, 0)


def _c(res, k):
    return res.counters.get(k, 0)


SINGLE = {
    "C01": {
        "profile": "C01",
        "rule": "seeded histories (C01 profile: many adds with unique bodies, reconnects, sweeps, restarts, id re-use); "
                "non-trivial = an open replayed >=1 message while another mailbox or app also held messages; "
                "distinct = distinct executed step lists",
        "nontrivial": lambda r: _p(r, "replay_with_other_messages_present") >= 1,
        "runs": (5000, 150000),
    },
    "C02": {
        "profile": "C02",
        "rule": "seeded histories (C02 profile: several connections per side, sweeps/restarts between bind and open); "
                "non-trivial = an add with >=2 subscribed connections",
        "nontrivial": lambda r: _p(r, "add_with_2plus_subscribers") >= 1,
        "runs": (5000, 150000),
    },
    "C03": {
        "profile": "C03",
        "rule": "seeded histories (C03 profile: same names in several apps, release/re-claim, restarts); "
                "non-trivial = a repeated claim within one nameplate incarnation",
        "nontrivial": lambda r: _p(r, "repeat_claim_same_incarnation") >= 1,
        "runs": (5000, 150000),
    },
    "C04": {
        "profile": "C04",
        "rule": "seeded histories (C04 profile: dense fills through the real claim routine, holes, listing on/off, "
                "adversarial RNG); non-trivial = an allocation with names in use at the answer's length, or in the "
                "4-6 digit regime, or with listing disallowed",
        "nontrivial": lambda r: _p(r, "alloc_with_holes") + _p(r, "alloc_4to6") + _p(r, "alloc_listing_disallowed") >= 1,
        "runs": (1500, 40000),
    },
    "C05": {
        "profile": "C05",
        "rule": "seeded histories (C05 profile: 3-4 sides per nameplate/mailbox, retries, reconnects); "
                "non-trivial = at least one third-side attempt (expected refusal) occurred",
        "nontrivial": lambda r: _p(r, "crowded_refusals") >= 1,
        "runs": (5000, 150000),
    },
    "C07": {
        "profile": "C07",
        "rule": "seeded histories (C07 profile: sides holding several nameplates, interleaved claim/release/close/list); "
                "non-trivial = a release retired a nameplate, a re-claim was refused, or a last close happened while "
                "the closer held another nameplate",
        "nontrivial": lambda r: _p(r, "release_retires_nameplate") + _p(r, "reclaimed")
        + _p(r, "last_close_closer_holds_other_nameplate") >= 1,
        "runs": (5000, 150000),
    },
    "C08": {
        "profile": "C08",
        "rule": "seeded histories (C08 profile: closes with the nameplate claimed by none/one/both sides, re-sent closes); "
                "non-trivial = a close deleted a mailbox whose nameplate was still claimed, or whose closer held "
                "another nameplate, or a close was re-sent on a fresh connection",
        "nontrivial": lambda r: _p(r, "close_deletes_mailbox") >= 1 and (
            _p(r, "last_close_nameplate_still_claimed") + _p(r, "last_close_closer_holds_other_nameplate")
            + _p(r, "close_resent_or_unopened") >= 1),
        "runs": (5000, 150000),
    },
    "C09": {
        "profile": "C09", "level": "fault_enumeration",
        "rule": "every outbound frame of every seeded history is a crash point: the server connection's transaction "
                "flag is inspected and, when set (and on every 16th frame regardless), its view is compared with an "
                "independent reader's; non-trivial = the run emitted >=3 frames of type "
                "allocated/claimed/released/closed/message",
        "nontrivial": lambda r: r.c09.get("data_frames", 0) >= 3,
        "runs": (5000, 150000),
    },
    "C12": {
        "profile": "C12",
        "rule": "seeded histories through the real TimerService with activity placed around sweep-660s; "
                "non-trivial = a sweep deleted one mailbox while keeping another that holds messages, or kept a "
                "mailbox only because of a subscriber older than 660 s",
        "nontrivial": lambda r: _p(r, "sweep_delete_one_keep_other") + _p(r, "sweep_old_subscriber_kept") >= 1,
        "runs": (4000, 120000),
    },
    "C13": {
        "profile": "C13",
        "rule": "seeded histories followed by a quiet phase (all clients leave, 660+2*300 s pass); transient database "
                "errors are injected at the first access of some sweeps; non-trivial = some sweep deleted a mailbox "
                "and the quiet phase ran",
        "nontrivial": lambda r: _p(r, "sweep_deleted_mailbox") >= 1 and r.quiesce,
        "runs": (4000, 120000),
    },
    "C15": {
        "profile": "C15",
        "rule": "seeded crash-free histories with a usage database; non-trivial = >=3 retirements in the run",
        "nontrivial": lambda r: _p(r, "retirements") >= 3,
        "runs": (5000, 150000),
    },
    "C16": {
        "profile": "C16",
        "rule": "seeded histories with blur in {1,7,60,61,100,900,3600,86400} and fractional wall offsets; "
                "non-trivial = >=2 blurred usage rows were written and checked",
        "nontrivial": lambda r: _p(r, "blur_rows") >= 2,
        "runs": (5000, 150000),
    },
    "C17": {
        "profile": "C17",
        "rule": "seeded histories mixing well-formed and erroneous commands in every protocol state; "
                "non-trivial = >=1 erroneous command was checked (one error echoing it, state unchanged)",
        "nontrivial": lambda r: _p(r, "errors_checked") >= 1,
        "runs": (5000, 150000),
    },
}

for _k, _v in SINGLE.items():
    _v["prof"] = PROFILES[_v["profile"]]
